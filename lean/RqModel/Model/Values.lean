/-
Model of the value path of the HTTP API (C30):

  JSON parameter ──makeParameter──▶ proto Parameter ──parametersToValues / bind──▶
  SQLite storage class ──driver (go-sqlite3 nextSyncLocked)──▶ driver value
  ──normalizeRowParameters──▶ proto Parameter ──NewValuesFromQueryValues / encoding/json──▶ JSON

http/request_parser.go (makeParameter), db/state.go (ParseHex), db/db.go
(parametersToValues, normalizeRowParameters), command/encoding/json.go.

Floats are opaque tokens (`Flt`): the model never computes with them; `inf`
marks the values encoding/json refuses. Text is a Lean `String` (valid UTF-8 by
construction; SQLite TEXT holding invalid UTF-8 is outside the model). What a
column's affinity does to a bound value is SQLite's business and not modelled:
the bind path ends at the value SQLite receives, the read path starts at the
value SQLite holds.

`normalize` is the code as it is: a `[]byte` from the driver (which is always a
BLOB - the driver hands TEXT over as `string`) in a column whose declared type is
text-like or empty (untyped column, TEXT, VARCHAR…, expression) is converted with
`string(val)`; encoding/json then replaces invalid UTF-8 by U+FFFD (x'00ff41' comes
back as "\u0000\ufffdA"). The repository's own tests pin this behaviour
(Test_DB_HexQuery, Test_Geopoly), so it is recorded as a known finding, not repaired.
-/
import RqModel.Model.Util
namespace RqModel.Values
open RqModel.Util

/-- an IEEE double as far as this path cares -/
inductive Flt where
  | fin (tok : String)   -- a finite value, identified by a canonical token
  | inf (neg : Bool)     -- ±Inf (NaN cannot be stored: SQLite turns it into NULL)
deriving Repr, DecidableEq

def int64Min : Int := -9223372036854775808
def int64Max : Int := 9223372036854775807

/-- one JSON value in a parameter position, as `json.Decoder` with `UseNumber` hands it over -/
inductive JParam where
  | num (lit : String) (tok : String)  -- a JSON number as written (`json.Number`); `tok` names the
                                -- double nearest to it (opaque: floats are not computed with)
  | bool (b : Bool)
  | null
  | str (s : String)
  | arr (elems : List (Option Int))  -- array; `none` = an element that is not an integer number
  | obj                          -- nested object inside a positional slot is handled by the caller; other types
deriving Repr, DecidableEq

/-- `command.Parameter` value -/
inductive Param where
  | i (z : Int)
  | d (f : Flt)
  | b (v : Bool)
  | y (bs : List UInt8)
  | s (t : String)
  | sBytes (bs : List UInt8)   -- a Go string holding arbitrary bytes (`string(val)` of a blob)
  | null
deriving Repr, DecidableEq

/-! ### ParseHex -/

/-- Unicode White_Space, as `strings.TrimSpace` uses -/
def isSpace (c : Char) : Bool :=
  let n := c.toNat
  (9 ≤ n && n ≤ 13) || n == 32 || n == 0x85 || n == 0xA0 || n == 0x1680 ||
  (0x2000 ≤ n && n ≤ 0x200A) || n == 0x2028 || n == 0x2029 || n == 0x202F || n == 0x205F || n == 0x3000

def trimSpace (cs : List Char) : List Char :=
  ((cs.dropWhile isSpace).reverse.dropWhile isSpace).reverse

/-- `hex.DecodeString` -/
def hexDecode : List Char → Option (List UInt8)
  | [] => some []
  | [_] => none
  | a :: b :: rest => do
    let h ← hexVal a
    let l ← hexVal b
    let tl ← hexDecode rest
    pure ((h * 16 + l).toUInt8 :: tl)

/-- `db.ParseHex`: X'…' / x'…' after trimming white space -/
def parseHex (s : String) : Option (List UInt8) :=
  let t := trimSpace s.toList
  if t.length < 3 then none
  else match t with
    | c :: rest =>
      if c != 'X' && c != 'x' then none
      else
        match rest, rest.reverse with
        | '\'' :: _, '\'' :: _ => hexDecode ((rest.drop 1).take (rest.length - 2))
        | _, _ => none
    | [] => none

/-! ### json.Number: integer or float -/

def decDigits (cs : List Char) : Option Nat :=
  if cs.isEmpty then none
  else cs.foldl (fun acc ch => do
    let a ← acc
    if '0' ≤ ch ∧ ch ≤ '9' then pure (a * 10 + (ch.toNat - '0'.toNat)) else none) (some 0)

/-- an optional sign as `strconv.ParseInt` accepts it -/
def splitSign : List Char → Bool × List Char
  | [] => (false, [])
  | c :: r => if c = '-' then (true, r) else if c = '+' then (false, r) else (false, c :: r)

/-- `strconv.ParseInt(s, 10, 64)` (what `json.Number.Int64` calls): an optional sign, one or more
decimal digits and nothing else; `none` = syntax error OR value outside int64 -/
def parseInt10 (s : String) : Option Int :=
  match decDigits (splitSign s.toList).2 with
  | none => none
  | some n =>
    let z : Int := if (splitSign s.toList).1 then -(n : Int) else (n : Int)
    if int64Min ≤ z ∧ z ≤ int64Max then some z else none

/-- the decimal number `[-]ddd[.ddd][e[+-]dd]` as (negative, m, e): value = ±m × 10^e -/
def parseJSONNumber (s : String) : Option (Bool × Nat × Int) := do
  let cs := s.toList
  let (neg, body) := match cs with
    | '-' :: r => (true, r)
    | r => (false, r)
  let mant := body.takeWhile (fun ch => ch != 'e' && ch != 'E')
  let expPart := (body.dropWhile (fun ch => ch != 'e' && ch != 'E')).drop 1
  let ip := mant.takeWhile (· != '.')
  let fp := (mant.dropWhile (· != '.')).drop 1
  let m ← decDigits (ip ++ fp)
  let (eneg, ed) := match expPart with
    | '-' :: r => (true, r)
    | '+' :: r => (false, r)
    | r => (false, r)
  let e : Nat ← if ed.isEmpty then some 0 else decDigits ed
  pure (neg, m, (if eneg then -(e : Int) else (e : Int)) - (fp.length : Int))

/-- the smallest magnitude that `strconv.ParseFloat` rounds to ±Inf (and reports ErrRange for):
the midpoint between the largest double and 2^1024 -/
def floatOverflowBound : Nat :=  -- = 2^1024 - 2^970
  179769313486231580793728971405303415079934132710037826936173778980444968292764750946649017977587207096330286416692887910946555547851940402630657488671505820681908902000708383676273854845817711531764475730270069855571366959622842914819860834936475292719074168444365510704342711559699508093042880177904174497792

/-- `json.Number.Float64` returns an error: the literal's magnitude rounds to infinity -/
def floatOverflows (s : String) : Bool :=
  match parseJSONNumber s with
  | some (_, m, e) => if e ≥ 0 then decide (m * 10 ^ e.toNat ≥ floatOverflowBound)
                      else decide (m ≥ floatOverflowBound * 10 ^ (-e).toNat)
  | none => false

/-- `makeParameter` -/
def makeParameter : JParam → Option Param
  | .num lit tok =>
    -- i64, err := num.Int64(); if err == nil → int64; else f64, err := num.Float64(); if err != nil → error
    match parseInt10 lit with
    | some z => some (.i z)
    | none => if floatOverflows lit then none else some (.d (.fin tok))
  | .bool b => some (.b b)
  | .null => some .null
  | .str s =>
    match parseHex s with
    | some bs => some (.y bs)
    | none => some (.s s)
  | .arr elems =>
    (elems.mapM fun (e : Option Int) =>
      match e with
      | some z => if 0 ≤ z ∧ z ≤ 255 then some z.toNat.toUInt8 else none
      | none => none).map .y
  | .obj => none

/-- one item after the SQL text of a parameterised statement: a positional value, or a JSON object
whose members are named parameters -/
inductive Arg where
  | pos (j : JParam)
  | named (members : List (String × JParam))
deriving Repr

/-- what `json.Decoder` leaves of the members of an object decoded into a Go map: for a repeated
key the LAST member wins, the earlier ones are gone before `makeParameter` sees them -/
def dedupLast : List (String × JParam) → List (String × JParam)
  | [] => []
  | kv :: rest => if rest.any (fun o => o.1 == kv.1) then dedupLast rest else kv :: dedupLast rest

/-- the parameters one item contributes; `none` = the request is rejected. (Go iterates a map: the
order of the parameters of ONE object is not defined; SQLite binds named parameters by name.) -/
def parseArg : Arg → Option (List (String × Param))
  | .pos j => (makeParameter j).map fun p => [("", p)]
  | .named ms => (dedupLast ms).mapM fun (kv : String × JParam) => (makeParameter kv.2).map fun p => (kv.1, p)

/-- the parameter loop of `ParseRequest`: `(name, value)` per parameter, `""` for positional ones, in
item order; `none` = the request is rejected. -/
def parseArgs (args : List Arg) : Option (List (String × Param)) :=
  (args.mapM parseArg).map List.flatten

/-! ### SQLite side -/

/-- a value as SQLite holds it (storage class + content) -/
inductive SqlVal where
  | integer (z : Int)
  | real (f : Flt)
  | text (t : String)
  | blob (bs : List UInt8)
  | null
deriving Repr, DecidableEq

/-- `parametersToValues` + go-sqlite3 `bind`: what SQLite receives for a parameter -/
def bindParam : Param → SqlVal
  | .i z => .integer z
  | .d f => .real f
  | .b v => .integer (if v then 1 else 0)
  | .y bs => .blob bs
  | .s t => .text t
  | .sBytes bs => .blob bs   -- not produced by makeParameter
  | .null => .null

/-- how the driver treats a column, by its declared type -/
inductive Decl where
  | plain      -- untyped, INTEGER, REAL, TEXT, BLOB, NUMERIC, expression …
  | datetime   -- timestamp / datetime / date: the driver converts (excluded by the property)
  | boolean    -- boolean: the driver converts (excluded by the property)
deriving Repr, DecidableEq

/-- value handed over by go-sqlite3 `nextSyncLocked` (only what rqlite then sees) -/
inductive Drv where
  | int64 (z : Int)
  | float64 (f : Flt)
  | string (t : String)
  | bytes (bs : List UInt8)
  | nil
  | bool (b : Bool)
  | time (of : SqlVal)
deriving Repr, DecidableEq

def drv : Decl → SqlVal → Drv
  | .plain, .integer z => .int64 z
  | .datetime, .integer z => .time (.integer z)
  | .boolean, .integer z => .bool (decide (z > 0))
  | _, .real f => .float64 f
  | .datetime, .text t => .time (.text t)
  | _, .text t => .string t
  | _, .blob bs => .bytes bs
  | _, .null => .nil

/-- `normalizeRowParameters`; `textTyped` = `isTextType(types[i])`: the column's declared type
is text-like or empty -/
def normalize (textTyped : Bool) : Drv → Param
  | .int64 z => .i z
  | .float64 f => .d f
  | .bool b => .b b
  | .string t => .s t
  | .bytes bs => if textTyped then .sBytes bs else .y bs
  | .time _ => .s "<rfc3339>"
  | .nil => .null

/-- the per-column type string `queryStmtWithConn` keeps (`xTypes[i]`), as far as `isTextType` cares -/
inductive ColType where
  | empty      -- no declared type: untyped column, expression
  | textLike   -- text, json, varchar…, nchar…, clob
  | other      -- integer, real, blob, numeric, boolean, …
deriving Repr, DecidableEq

def isTextTy : ColType → Bool
  | .empty => true
  | .textLike => true
  | .other => false

/-- `populateEmptyTypes`, run ONCE after the first row: an empty type becomes the type of the first
row's (already normalised) value; a NULL leaves it empty - for good, since the flag is cleared -/
def populate : ColType → Param → ColType
  | .empty, .s _ => .textLike
  | .empty, .sBytes _ => .textLike
  | .empty, .null => .empty
  | .empty, _ => .other
  | t, _ => t

/-- a JSON value in the response -/
inductive JOut where
  | num (z : Int)
  | fnum (tok : String)
  | bool (b : Bool)
  | str (t : String)
  | b64 (bs : List UInt8)       -- []byte: encoding/json emits base64
  | arr (bs : List UInt8)       -- ByteSliceAsArray: array of integers
  | lossyStr (bs : List UInt8)  -- a JSON string made from arbitrary bytes: invalid UTF-8 became U+FFFD
  | null
deriving Repr, DecidableEq

/-- `NewValuesFromQueryValues` + encoding/json; `none` = the encoder returns an error -/
def encode (blobArray : Bool) : Param → Option JOut
  | .i z => some (.num z)
  | .d (.fin tok) => some (.fnum tok)
  | .d (.inf _) => none
  | .b v => some (.bool v)
  | .y bs => some (if blobArray then .arr bs else .b64 bs)
  | .s t => some (.str t)
  | .sBytes bs => some (.lossyStr bs)
  | .null => some .null

/-- the whole read path -/
def readback (decl : Decl) (textTyped blobArray : Bool) (v : SqlVal) : Option JOut :=
  encode blobArray (normalize textTyped (drv decl v))

/-- one column of a multi-row result, as the row loop of `queryStmtWithConn` produces it: every value
is normalised with `isTextType(xTypes[i])` evaluated AT THAT MOMENT - the declared type for the first
row, the populated type for all later rows -/
def readColumn (decl : Decl) (t : ColType) (blobArray : Bool) : List SqlVal → List (Option JOut)
  | [] => []
  | v :: rest =>
    let p := normalize (isTextTy t) (drv decl v)
    let t' := populate t p
    encode blobArray p :: rest.map fun w => encode blobArray (normalize (isTextTy t') (drv decl w))

/-- `NewAssociativeRowsFromQueryRows`: `m[c] = values[i][ii]` for each column in turn - a Go map,
so for a repeated column name the LAST value wins. The value the associative row holds for `c`: -/
def assocGet (cols : List String) (vals : List JOut) (c : String) : Option JOut :=
  ((cols.zip vals).reverse.find? fun kv => kv.1 == c).map (·.2)

/-! ### line protocol
`param <jparam>` → `<param>` | `error`
`bind <param>` → `<sqlval>`
`read <plain|datetime|boolean> <0|1 text-typed column> <0|1 blob_array> <sqlval>` → `<jout>` | `error`
`readcol <plain|datetime|boolean> <e|t|o declared type> <0|1 blob_array> <sqlval,sqlval,…>` → `<jout>,<jout>,…`
`args <item> <item> …` → `<hex name>=<param> …` | `-` (no parameter) | `error`; item `p=<jparam>` (positional) or
  `n=<hex name>=<jparam>;<hex name>=<jparam>;…` (one JSON object, `n=` the empty one). The parameters of one object
  are printed sorted by name (Go's map order is undefined); the order of items is kept.
`assoc <hex col>,<hex col>,… <jout>,<jout>,… <hex col>` → `<jout>` | `none`: the associative row's value for a column
tokens: jparam `num:<hex literal>:<hex float token>` `b:<0|1>` `n` `s:<hex>` `a:<e,e,…>|a:-` (element `x` = not an integer) `o`;
param `I:<int>` `D:<hex tok>` `Dinf:<0|1>` `B:<0|1>` `Y:<hex>` `S:<hex>` `N`;
sqlval `integer:<int>` `real:<hex tok>` `realinf:<0|1>` `text:<hex>` `blob:<hex>` `null`;
jout `num:<int>` `fnum:<hex tok>` `bool:<0|1>` `str:<hex>` `b64:<hex>` `arr:<hex>` `lossy:<hex>` `null`. -/

structure DState where
  unit : Unit := ()

def splitTag (t : String) : String × String :=
  match t.splitOn ":" with
  | [a] => (a, "")
  | a :: rest => (a, ":".intercalate rest)
  | [] => ("", "")

def parseInt (s : String) : Option Int :=
  match s.toList with
  | '-' :: ds => (String.ofList ds).toNat?.map fun n => -(n : Int)
  | _ => s.toNat?.map fun n => (n : Int)

def bit (s : String) : Option Bool :=
  if s == "1" then some true else if s == "0" then some false else none

def parseFlt (tag body : String) (fin inf : String) : Option Flt :=
  if tag == fin then (tokString body).map .fin
  else if tag == inf then (bit body).map .inf
  else none

def parseJParam (t : String) : Option JParam :=
  let (tag, body) := splitTag t
  if tag == "num" then
    match body.splitOn ":" with
    | [l, t] => do let l ← tokString l; let t ← tokString t; pure (.num l t)
    | _ => none
  else if tag == "b" then (bit body).map .bool
  else if tag == "n" then some .null
  else if tag == "s" then (tokString body).map .str
  else if tag == "a" then
    if body == "-" then some (.arr [])
    else ((body.splitOn ",").mapM fun e => if e == "x" then some none else (parseInt e).map some).map .arr
  else if tag == "o" then some .obj
  else none

def fltStr (fin inf : String) : Flt → String
  | .fin tok => fin ++ ":" ++ hexOfString tok
  | .inf neg => inf ++ ":" ++ (if neg then "1" else "0")

def paramStr : Param → String
  | .i z => "I:" ++ toString z
  | .d f => fltStr "D" "Dinf" f
  | .b v => "B:" ++ (if v then "1" else "0")
  | .y bs => "Y:" ++ hexOfBytes bs
  | .s t => "S:" ++ hexOfString t
  | .sBytes bs => "Sbytes:" ++ hexOfBytes bs
  | .null => "N"

def parseParam (t : String) : Option Param :=
  let (tag, body) := splitTag t
  if tag == "I" then (parseInt body).map .i
  else if tag == "D" || tag == "Dinf" then (parseFlt tag body "D" "Dinf").map .d
  else if tag == "B" then (bit body).map .b
  else if tag == "Y" then (tokBytes body).map .y
  else if tag == "S" then (tokString body).map .s
  else if tag == "N" then some .null
  else none

def sqlStr : SqlVal → String
  | .integer z => "integer:" ++ toString z
  | .real f => fltStr "real" "realinf" f
  | .text t => "text:" ++ hexOfString t
  | .blob bs => "blob:" ++ hexOfBytes bs
  | .null => "null"

def parseSql (t : String) : Option SqlVal :=
  let (tag, body) := splitTag t
  if tag == "integer" then (parseInt body).map .integer
  else if tag == "real" || tag == "realinf" then (parseFlt tag body "real" "realinf").map .real
  else if tag == "text" then (tokString body).map .text
  else if tag == "blob" then (tokBytes body).map .blob
  else if tag == "null" then some .null
  else none

def joutStr : JOut → String
  | .num z => "num:" ++ toString z
  | .fnum tok => "fnum:" ++ hexOfString tok
  | .bool b => "bool:" ++ (if b then "1" else "0")
  | .str t => "str:" ++ hexOfString t
  | .b64 bs => "b64:" ++ hexOfBytes bs
  | .arr bs => "arr:" ++ hexOfBytes bs
  | .lossyStr bs => if bs.isEmpty then "b64:x" else "lossy:" ++ hexOfBytes bs   -- "" either way
  | .null => "null"

def parseJOut (t : String) : Option JOut :=
  let (tag, body) := splitTag t
  if tag == "num" then (parseInt body).map .num
  else if tag == "fnum" then (tokString body).map .fnum
  else if tag == "bool" then (bit body).map .bool
  else if tag == "str" then (tokString body).map .str
  else if tag == "b64" then (tokBytes body).map .b64
  else if tag == "arr" then (tokBytes body).map .arr
  else if tag == "lossy" then (tokBytes body).map .lossyStr
  else if tag == "null" then some .null
  else none

def parseMember (m : String) : Option (String × JParam) :=
  match m.splitOn "=" with
  | [k, t] => do let name ← tokString k; let j ← parseJParam t; pure (name, j)
  | _ => none

def parseArgItem (item : String) : Option Arg :=
  match item.splitOn "=" with
  | ["p", t] => (parseJParam t).map .pos
  | ["n", ""] => some (.named [])
  | "n" :: rest => (("=".intercalate rest).splitOn ";").mapM parseMember |>.map .named
  | _ => none

/-- the parameters of one item, those of an object sorted by name -/
def groupStr (g : List (String × Param)) : List String :=
  (g.mergeSort fun a b => !(decide (b.1 < a.1))).map fun kp => hexOfString kp.1 ++ "=" ++ paramStr kp.2

def parseDecl (t : String) : Option Decl :=
  if t == "plain" then some .plain else if t == "datetime" then some .datetime
  else if t == "boolean" then some .boolean else none

def step (d : DState) (line : String) : DState × String :=
  match words line with
  | ["param", t] =>
    match parseJParam t with
    | some j => (d, match makeParameter j with | some p => paramStr p | none => "error")
    | none => (d, "bad-op")
  | ["bind", t] =>
    match parseParam t with
    | some p => (d, sqlStr (bindParam p))
    | none => (d, "bad-op")
  | ["readcol", dt, ct, ba, vs] =>
    match parseDecl dt, (if ct == "e" then some ColType.empty else if ct == "t" then some .textLike
            else if ct == "o" then some .other else none), bit ba, (vs.splitOn ",").mapM parseSql with
    | some dt, some ct, some ba, some vals =>
      (d, ",".intercalate ((readColumn dt ct ba vals).map fun o => match o with | some j => joutStr j | none => "error"))
    | _, _, _, _ => (d, "bad-op")
  | ["assoc", cs, vs, c] =>
    match (cs.splitOn ",").mapM tokString, (vs.splitOn ",").mapM parseJOut, tokString c with
    | some cols, some vals, some c =>
      (d, match assocGet cols vals c with | some j => joutStr j | none => "none")
    | _, _, _ => (d, "bad-op")
  | "args" :: items =>
    match items.mapM parseArgItem with
    | some args =>
      -- accepted / rejected is `parseArgs`; the groups are printed one by one so that each can be sorted
      (d, match parseArgs args, args.mapM parseArg with
          | some _, some groups =>
            let out := groups.flatMap groupStr
            if out.isEmpty then "-" else " ".intercalate out
          | _, _ => "error")
    | none => (d, "bad-op")
  | ["read", dt, tt, ba, t] =>
    match parseDecl dt, bit tt, bit ba, parseSql t with
    | some dt, some tt, some ba, some v =>
      (d, match readback dt tt ba v with | some j => joutStr j | none => "error")
    | _, _, _, _ => (d, "bad-op")
  | _ => (d, "bad-op")

def init : DState := {}

end RqModel.Values
--! driver: values RqModel.Values

/-
Model of the breaking-PRAGMA guard (C15): db/state.go `sqlTokens` and
`IsBreakingPragma` (the tokenizer-based guard introduced by the `fix:` commit),
transcribed over bytes (`List Nat`, every element < 256).

`lex` is `sqlTokens`: whitespace, a byte-order mark, `--` and `/* */` comments are
dropped; `'..'`, `".."`, `` `..` `` (doubled quote = one quote character) and `[..]`
give a quoted token; runs of word bytes (alphanumerics, `_`, `$`, bytes ≥ 0x80)
give a word token; every other byte is a punctuation token. Words and quoted
texts are lower-cased (ASCII only).

`guard` is `IsBreakingPragma`: at the start of the text and after every `;` token:
`[EXPLAIN [QUERY PLAN]] PRAGMA [schema .] name`, with `name` one of the five
critical names, followed by `=` or `(` — or `name = wal_checkpoint` in any form.

The lexer recurses on a fuel argument (`length + 1` suffices because every step
consumes at least one byte) so that it reduces in the kernel. Core Lean only.
-/
import RqModel.Model.Util
namespace RqModel.Pragma
open RqModel.Util

inductive Tok where
  | word (t : List Nat)      -- bare word, lower-cased
  | quoted (t : List Nat)    -- quoted name / string, unquoted and lower-cased
  | punct (c : Nat)
deriving DecidableEq, Repr

/-- `isSQLSpace`; a vertical tab (11) is whitespace for SQLite only after other whitespace,
the guard treats it as whitespace everywhere (safe side) -/
def isSpace (c : Nat) : Bool := c == 32 || c == 9 || c == 10 || c == 11 || c == 12 || c == 13

def isWordByte (c : Nat) : Bool :=
  c == 95 || c == 36 || c ≥ 128 || (48 ≤ c && c ≤ 57) || (97 ≤ c && c ≤ 122) || (65 ≤ c && c ≤ 90)

def lower (c : Nat) : Nat := if 65 ≤ c && c ≤ 90 then c + 32 else c

/-- `for i < len(s) && s[i] != '\n' { i++ }` -/
def skipLine : List Nat → List Nat
  | [] => []
  | c :: r => if c == 10 then c :: r else skipLine r

/-- the text after the first `*/`, `[]` when there is none (`strings.Index(s[i+2:], "*/")`) -/
def skipBlock : List Nat → List Nat
  | [] => []
  | [_] => []
  | a :: b :: r => if a == 42 && b == 47 then r else skipBlock (b :: r)

/-- contents of a quoted token and the text after its closing quote -/
def takeQuoted (close : Nat) (noEscape : Bool) : List Nat → List Nat × List Nat
  | [] => ([], [])
  | [c] => if c == close then ([], []) else ([c], [])
  | c :: d :: r =>
    if c == close then
      if !noEscape && d == close then
        let (t, rest) := takeQuoted close noEscape r
        (c :: t, rest)
      else ([], d :: r)
    else
      let (t, rest) := takeQuoted close noEscape (d :: r)
      (c :: t, rest)

def lexN : Nat → List Nat → List Tok
  | 0, _ => []
  | _, [] => []
  | n + 1, c :: r =>
    if isSpace c then lexN n r
    else if c == 239 && r.take 2 == [187, 191] then lexN n (r.drop 2)
    else if c == 45 && r.head? == some 45 then lexN n (skipLine r)
    else if c == 47 && r.head? == some 42 then lexN n (skipBlock (r.drop 1))
    else if c == 39 || c == 34 || c == 96 || c == 91 then
      let q := takeQuoted (if c == 91 then 93 else c) (c == 91) r
      .quoted (q.1.map lower) :: lexN n q.2
    else if isWordByte c then
      .word ((c :: r.takeWhile isWordByte).map lower) :: lexN n (r.dropWhile isWordByte)
    else .punct c :: lexN n r

/-- `sqlTokens` -/
def lex (bs : List Nat) : List Tok := lexN (bs.length + 1) bs

def bytesOf (s : String) : List Nat := s.toList.map Char.toNat

def wPragma : List Nat := bytesOf "pragma"
def wExplain : List Nat := bytesOf "explain"
def wQuery : List Nat := bytesOf "query"
def wPlan : List Nat := bytesOf "plan"
def wWalCheckpoint : List Nat := bytesOf "wal_checkpoint"

/-- `BreakingPragmas` -/
def critical : List (List Nat) :=
  [bytesOf "journal_mode", bytesOf "wal_autocheckpoint", bytesOf "wal_checkpoint",
   bytesOf "synchronous", bytesOf "query_only"]

def nameOf : Tok → Option (List Nat)
  | .word t => some t
  | .quoted t => some t
  | .punct _ => none

/-- `[EXPLAIN [QUERY PLAN]]` -/
def skipExplain : List Tok → List Tok
  | .word e :: rest =>
    if e == wExplain then
      match rest with
      | .word q :: .word p :: rest' => if q == wQuery && p == wPlan then rest' else rest
      | _ => rest
    else .word e :: rest
  | ts => ts

/-- `[schema .]` -/
def skipSchema : List Tok → List Tok
  | n :: .punct 46 :: rest => if (nameOf n).isSome then rest else n :: .punct 46 :: rest
  | ts => ts

def valueFollows : List Tok → Bool
  | .punct c :: _ => c == 61 || c == 40
  | _ => false

/-- the tokens after the keyword PRAGMA -/
def afterPragma (ts : List Tok) : Bool :=
  match skipSchema ts with
  | n :: rest =>
    match nameOf n with
    | some t => critical.contains t && (t == wWalCheckpoint || valueFollows rest)
    | none => false
  | [] => false

/-- the body of the loop of IsBreakingPragma for a position at the start of a statement -/
def headDanger (ts : List Tok) : Bool :=
  match skipExplain ts with
  | .word w :: rest => w == wPragma && afterPragma rest
  | _ => false

/-- the loop of IsBreakingPragma: position 0 and every position after a `;` token -/
def scan (atStart : Bool) : List Tok → Bool
  | [] => false
  | t :: r => (atStart && headDanger (t :: r)) || scan (t == .punct 59) r

/-- `IsBreakingPragma` -/
def guard (bs : List Nat) : Bool := scan true (lex bs)

/-! ## line protocol
`guard <hex>` → `true|false`;  `lex <hex>` → tokens as `w:<hex>`, `q:<hex>`, `p:<byte>` joined by `,` (`-` when none)
-/
structure DState where
  unit : Unit := ()

def tokStr : Tok → String
  | .word t => "w:" ++ hexOfBytes (t.map (·.toUInt8))
  | .quoted t => "q:" ++ hexOfBytes (t.map (·.toUInt8))
  | .punct c => "p:" ++ toString c

def step (d : DState) (line : String) : DState × String :=
  match words line with
  | ["guard", h] =>
    match tokBytes h with
    | some bs => (d, boolStr (guard (bs.map (·.toNat))))
    | none => (d, "bad-op")
  | ["lex", h] =>
    match tokBytes h with
    | some bs =>
      let ts := lex (bs.map (·.toNat))
      (d, if ts.isEmpty then "-" else joinWith "," (ts.map tokStr))
    | none => (d, "bad-op")
  | _ => (d, "bad-op")

def init : DState := {}

end RqModel.Pragma
--! driver: pragma RqModel.Pragma

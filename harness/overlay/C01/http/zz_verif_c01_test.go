package http

// C01 end to end: a REAL HTTP service in front of a REAL store. Grammar-generated SQL
// programs (DDL, DML, transactions, parameters, RETURNING, sub-selects, with RANDOM(),
// RANDOMBLOB(n) and the date/time functions at 'now' in many spellings) are POSTed to
// the write endpoints /db/execute, /db/execute?queue&wait, /db/request and /db/load
// (SQL text). The table contents are then obtained on four apply paths:
//   live     – node A as it applied the entries,
//   replay   – A closed and reopened with a forced rebuild: the log replayed later,
//   install  – A snapshots (log truncated) and a new node C joins: snapshot install + suffix,
//   recover  – A shut down, peers file written, reopened: RecoverNode's replay,
// (every second program: live apply on A happens with CDC enabled and its consumer stalled on
// a 1-2 slot channel; the other paths run without CDC)
// and compared pairwise (typeof/quote of every column of every row). In the thorough
// tier the test sleeps across a second boundary between the paths.
// The Lean model `converge` is compared on which endpoints rewrite (`endpoint …`).

import (
	"bytes"
	"context"
	"encoding/json"
	"fmt"
	"io"
	"net"
	"net/http"
	"os"
	"path/filepath"
	"strings"
	"testing"
	"time"

	"github.com/rqlite/rqlite/v10/proxy"
	command "github.com/rqlite/rqlite/v10/command/proto"
	"github.com/rqlite/rqlite/v10/store"
)

type c01Layer struct{ ln net.Listener }

func (l *c01Layer) Dial(addr string, timeout time.Duration) (net.Conn, error) {
	return net.DialTimeout("tcp", addr, timeout)
}
func (l *c01Layer) Accept() (net.Conn, error) { return l.ln.Accept() }
func (l *c01Layer) Close() error              { return l.ln.Close() }
func (l *c01Layer) Addr() net.Addr            { return l.ln.Addr() }

func c01TempRoot() string {
	if st, err := os.Stat("/dev/shm"); err == nil && st.IsDir() {
		return "/dev/shm"
	}
	return ""
}

type c01Node struct {
	t   *testing.T
	dir string
	id  string
	st  *store.Store
	ly  *c01Layer
	svc *Service
}

func c01NewStore(t *testing.T, dir, id string) (*store.Store, *c01Layer) {
	ln, err := net.Listen("tcp", "127.0.0.1:0")
	if err != nil {
		t.Fatal(err)
	}
	ly := &c01Layer{ln}
	st := store.New(&store.Config{DBConf: store.NewDBConfig(), Dir: dir, ID: id}, ly)
	st.NoSnapshotOnClose = true
	st.SnapshotThreshold = 1 << 40
	// no background reaping: an Open right after RecoverNode's snapshot can be refused while the
	// reaper holds the snapshot store's lock, and a failed Open cannot be cleaned up from this package
	st.SnapshotReapThreshold = 1 << 20
	st.HeartbeatTimeout, st.ElectionTimeout, st.LeaderLeaseTimeout = 300*time.Millisecond, 300*time.Millisecond, 300*time.Millisecond
	return st, ly
}

// ---- robustness under machine load: see harness/overlay/shared/store (same rules) ----------
// requests refused before the log are retried (60 s), ambiguous outcomes and waits that run
// out ABANDON the program (counted, noted, not judged); more than half abandoned fails the run.

type c01Abandoned struct{ why string }

var c01Started, c01AbandonedN int

func c01Abandon(why string) { panic(c01Abandoned{why}) }

func c01Retryable(text string) bool {
	t := strings.ToLower(text)
	for _, m := range []string{"not leader", "leader not found", "timeout waiting for leader", "timed out enqueuing", "no leader", "not ready"} {
		if strings.Contains(t, m) {
			return true
		}
	}
	return false
}

func c01LoadRelated(text string) bool {
	if c01Retryable(text) {
		return true
	}
	t := strings.ToLower(text)
	for _, m := range []string{"leadership lost", "timeout", "timed out", "deadline exceeded", "shutdown"} {
		if strings.Contains(t, m) {
			return true
		}
	}
	return false
}

func c01Retry(st *store.Store, fn func() error) error {
	deadline := time.Now().Add(60 * time.Second)
	for {
		err := fn()
		if err == nil || !c01Retryable(err.Error()) || time.Now().After(deadline) {
			return err
		}
		st.WaitForLeader(5 * time.Second)
		time.Sleep(100 * time.Millisecond)
	}
}

// c01Must: a setup step failed: load-related abandons the program, anything else is harness breakage.
func c01Must(t *testing.T, what string, err error) {
	if err == nil {
		return
	}
	if c01LoadRelated(err.Error()) {
		c01Abandon(what + ": " + err.Error())
	}
	t.Fatalf("%s: %v", what, err)
}

func c01Ready(t *testing.T, st *store.Store) {
	if _, err := st.WaitForLeader(60 * time.Second); err != nil {
		c01Abandon(fmt.Sprintf("no leader within 60 s: %v", err))
	}
	var err error
	for deadline := time.Now().Add(60 * time.Second); time.Now().Before(deadline); {
		if err = st.Barrier(); err == nil {
			return
		}
		time.Sleep(50 * time.Millisecond)
	}
	c01Abandon(fmt.Sprintf("barrier: %v", err))
}

func (n *c01Node) startHTTP() {
	c := &mockClusterService{}
	n.svc = New("127.0.0.1:0", n.st, c, proxy.New(n.st, c), nil)
	if err := n.svc.Start(); err != nil {
		n.t.Fatalf("http start: %v", err)
	}
}

func (n *c01Node) post(path, contentType, body string) (int, string) {
	deadline := time.Now().Add(60 * time.Second)
	for {
		resp, err := http.Post("http://"+n.svc.Addr().String()+path, contentType, strings.NewReader(body))
		if err != nil {
			n.t.Fatalf("POST %s: %v", path, err)
		}
		b, _ := io.ReadAll(resp.Body)
		resp.Body.Close()
		// refused before the log (no leader at this instant on a loaded machine): try again
		if resp.StatusCode != 200 && c01Retryable(string(b)) && time.Now().Before(deadline) {
			n.st.WaitForLeader(5 * time.Second)
			time.Sleep(100 * time.Millisecond)
			continue
		}
		return resp.StatusCode, string(b)
	}
}

const c01Dump = "SELECT id, typeof(a), quote(a), typeof(b), quote(b), typeof(c), quote(c) FROM t ORDER BY id"

func c01Table(st *store.Store) string {
	qr := &command.QueryRequest{Request: &command.Request{Statements: []*command.Statement{{Sql: c01Dump}}}, Level: command.ConsistencyLevel_NONE}
	rows, _, _, err := st.Query(context.Background(), qr)
	if err != nil {
		return "ERR:" + err.Error()
	}
	if len(rows) != 1 || rows[0].Error != "" {
		return "ERR:" + fmt.Sprint(rows)
	}
	var b strings.Builder
	for _, r := range rows[0].Values {
		for i, p := range r.Parameters {
			if i > 0 {
				b.WriteByte('|')
			}
			switch v := p.GetValue().(type) {
			case *command.Parameter_I:
				fmt.Fprint(&b, v.I)
			case *command.Parameter_S:
				b.WriteString(v.S)
			default:
				fmt.Fprint(&b, p.GetValue())
			}
		}
		b.WriteByte('\n')
	}
	return b.String()
}

// ---- grammar ---------------------------------------------------------------------

var c01Nondet = []string{
	"RANDOM()", "random()", "abs(random()) % 1000", "RANDOMBLOB(8)", "hex(randomblob(4))", "randomblob(16)",
	"datetime('now')", "date('now')", "time('now')", "julianday('now')", "unixepoch('now')", "unixepoch('now','subsec')",
	"strftime('%Y-%m-%d %H:%M:%f','now')", "strftime('%s','now')", "strftime('%J','now')", "datetime('now','+1 day')",
	"datetime('now','start of month','+3 hours')", "DATETIME('NOW')", "julianday()", "datetime()", "unixepoch()", "time()", "date()",
	"timediff('now','2020-01-01 00:00:00')", "random ()", "strftime('%f')",
	// literals SQLite reads as less than one: randomblob returns ONE random byte (pinned since fix 2d6515f)
	"hex(randomblob(0xFFFFFFFFFFFFFFFF))", "randomblob(0x8000000000000000)", "hex(randomblob(-1))", "randomblob(0)", "hex(randomblob(0.5))", "randomblob(+3)",
}

func c01Expr(r *vfRng, nondetPct, depth int) string {
	if r.Chance(nondetPct) {
		return r.Pick(c01Nondet)
	}
	switch k := r.Intn(100); {
	case k < 35:
		return fmt.Sprint(r.Intn(1000) - 100)
	case k < 55:
		return fmt.Sprintf("'s%d'", r.Intn(1000))
	case k < 60:
		return "NULL"
	case k < 65:
		return fmt.Sprintf("x'%x'", r.Bytes(1+r.Intn(4)))
	case depth > 0 && k < 75:
		return "coalesce(NULL, " + c01Expr(r, nondetPct, depth-1) + ")"
	case depth > 0 && k < 83:
		return "(" + c01Expr(r, nondetPct, depth-1) + " || '-' || " + c01Expr(r, nondetPct, depth-1) + ")"
	case depth > 0 && k < 90:
		return "CASE WHEN " + c01Expr(r, nondetPct, depth-1) + " IS NULL THEN 1 ELSE " + c01Expr(r, nondetPct, depth-1) + " END"
	case depth > 0 && k < 95:
		return "(SELECT " + c01Expr(r, nondetPct, depth-1) + ")"
	}
	return fmt.Sprint(r.Intn(50))
}

func c01Stmt(r *vfRng, nondetPct int) string {
	e := func() string { return c01Expr(r, nondetPct, 2) }
	// a non-deterministic call FOLLOWED by a sub-select that has none, and the other way round
	det := []string{"(SELECT count(*) FROM t)", "(SELECT max(id) FROM t)", "(SELECT 7)", "(SELECT a FROM t WHERE id = 1)"}
	switch k := r.Intn(100); {
	case k < 10:
		return fmt.Sprintf("INSERT INTO t(a,b,c) VALUES(%s, %s, %s)", e(), r.Pick(det), e())
	case k < 16:
		return fmt.Sprintf("UPDATE t SET b = %s WHERE id IN (SELECT id FROM t WHERE id %% 2 = %d)", e(), r.Intn(2))
	case k < 21:
		return fmt.Sprintf("INSERT INTO t(a,b,c) VALUES(%s, %s, %s)", r.Pick(det), e(), r.Pick(det))
	case k < 45:
		return fmt.Sprintf("INSERT INTO t(a,b,c) VALUES(%s, %s, %s)", e(), e(), e())
	case k < 55:
		return fmt.Sprintf("INSERT INTO t(a,b) SELECT %s, %s FROM t WHERE id %% 3 = %d LIMIT 3", e(), e(), r.Intn(3))
	case k < 72:
		return fmt.Sprintf("UPDATE t SET %s = %s WHERE id %% %d = %d", r.Pick([]string{"a", "b", "c"}), e(), 2+r.Intn(3), r.Intn(2))
	case k < 80:
		return fmt.Sprintf("UPDATE t SET c = %s WHERE a IS NOT %s", e(), e())
	case k < 88:
		return fmt.Sprintf("DELETE FROM t WHERE id %% 7 = %d AND %s IS NOT NULL", r.Intn(7), e())
	case k < 94:
		return fmt.Sprintf("INSERT INTO t(a,c) VALUES(%s, %s) RETURNING id, a", e(), e())
	default:
		return fmt.Sprintf("REPLACE INTO t(id,a,b) VALUES(%d, %s, %s)", 1+r.Intn(10), e(), e())
	}
}

func c01JSON(stmts []string, r *vfRng, nondetPct int) string {
	var items []interface{}
	for _, s := range stmts {
		items = append(items, s)
	}
	if r.Chance(30) { // a parameterized statement
		items = append(items, []interface{}{fmt.Sprintf("INSERT INTO t(a,b,c) VALUES(?, %s, ?)", c01Expr(r, nondetPct, 1)), r.Intn(100), "p"})
	}
	b, _ := json.Marshal(items)
	return string(b)
}

// ---- one program through all four paths --------------------------------------------

// cdcCap > 0: node A applies live with change data capture enabled, its events going into a
// channel of that capacity which NOBODY reads (a stalled consumer): full after cdcCap
// row-changing commits. The replay / install / recover paths run without CDC. What an observer
// of commits does with its events must not decide what the node holds.
func c01Program(t *testing.T, rep *vfReport, r *vfRng, nReq int, nondetEndpoint string, cdcCap int) {
	dir, err := os.MkdirTemp(c01TempRoot(), "verif-c01-")
	if err != nil {
		t.Fatal(err)
	}
	defer os.RemoveAll(dir)
	id := fmt.Sprintf("a%d", r.Intn(1<<30))
	a := &c01Node{t: t, dir: filepath.Join(dir, "A"), id: id}
	var joiner *store.Store
	c01Started++
	defer func() { // an abandoned program: counted, noted, its stores shut down, nothing judged
		rec := recover()
		if rec == nil {
			return
		}
		ab, ok := rec.(c01Abandoned)
		if !ok {
			panic(rec)
		}
		c01AbandonedN++
		rep.Count("case-abandoned:machine-load")
		rep.Note("program abandoned (machine load, not judged): %s", ab.why)
		quiet := func(f func()) { defer func() { recover() }(); f() }
		if a.svc != nil {
			quiet(func() { a.svc.Close() })
		}
		if joiner != nil {
			quiet(func() { joiner.Close(true) })
		}
		if a.st != nil {
			quiet(func() { a.st.Close(true) })
		}
		if a.ly != nil {
			quiet(func() { a.ly.Close() })
		}
	}()
	a.st, a.ly = c01NewStore(t, a.dir, id)
	if err := a.st.Open(); err != nil {
		t.Fatalf("open: %v", err)
	}
	if err := a.st.Bootstrap(store.NewServer(a.st.ID(), a.st.Addr(), true)); err != nil {
		t.Fatal(err)
	}
	c01Ready(t, a.st)
	a.startHTTP()
	var hist []string
	cause := "nondeterministic-sql-via-" + nondetEndpoint
	if cdcCap > 0 {
		stalled := make(chan *command.CDCIndexedEventGroup, cdcCap)
		if err := a.st.EnableCDC(stalled, nil, false); err != nil {
			t.Fatalf("enable cdc: %v", err)
		}
		hist = append(hist, fmt.Sprintf("[live node: CDC enabled, consumer stalled, channel capacity %d]", cdcCap))
		cause = "stalled-cdc-consumer-on-live-node(or-" + cause + ")"
		rep.Count("program-live-node-with-stalled-cdc-consumer")
	}
	send := func(ep, path, ct, body string) {
		code, resp := a.post(path, ct, body)
		hist = append(hist, ep+" "+body)
		if code != 200 {
			if c01LoadRelated(resp) {
				c01Abandon(fmt.Sprintf("%s -> %d %s", path, code, resp))
			}
			t.Fatalf("%s %s -> %d %s", path, body, code, resp)
		}
		rep.Count("request-" + ep)
	}
	send("execute", "/db/execute", "application/json", `["CREATE TABLE t (id INTEGER PRIMARY KEY, a, b, c)", "INSERT INTO t(a,b,c) VALUES(1,2,3)", "INSERT INTO t(a,b,c) VALUES(4,5,6)", "INSERT INTO t(a,b,c) VALUES(7,8,9)"]`)
	endpoints := []string{"execute", "execute-tx", "queued", "request", "loadtext"}
	for i := 0; i < nReq; i++ {
		ep := endpoints[r.Intn(len(endpoints))]
		if i < 2 { // the class under test is always exercised, with non-deterministic SQL
			ep = nondetEndpoint
		}
		pct := 0
		if ep == nondetEndpoint || (nondetEndpoint == "execute" && ep == "execute-tx") {
			pct = 45
		}
		var stmts []string
		if i < 2 {
			stmts = append(stmts, fmt.Sprintf("INSERT INTO t(a,b,c) VALUES(%s, %s, %d)", r.Pick(c01Nondet), r.Pick(c01Nondet), i))
			stmts = append(stmts, fmt.Sprintf("INSERT INTO t(a,b,c) VALUES(%s, (SELECT count(*) FROM t), %s)", r.Pick(c01Nondet), r.Pick([]string{"1", "(SELECT 2)"})))
			stmts = append(stmts, fmt.Sprintf("UPDATE t SET c = %s WHERE id IN (SELECT id FROM t WHERE id %% 3 = %d)", r.Pick(c01Nondet), i))
			if i == 1 { // every program: blob sizes SQLite reads as less than one (one random byte unless pinned)
				stmts = append(stmts, fmt.Sprintf("INSERT INTO t(a,b,c) VALUES(hex(randomblob(%s)), randomblob(%s), %d)",
					r.Pick([]string{"0xFFFFFFFFFFFFFFFF", "0x8000000000000000", "0xfffffffffffffff0"}), r.Pick([]string{"-1", "0", "0.5", "-0x10"}), i))
			}
		}
		for j := 0; j < 1+r.Intn(3); j++ {
			stmts = append(stmts, c01Stmt(r, pct))
		}
		switch ep {
		case "execute":
			send(ep, "/db/execute", "application/json", c01JSON(stmts, r, pct))
		case "execute-tx":
			send(ep, "/db/execute?transaction", "application/json", c01JSON(stmts, r, pct))
		case "queued":
			send(ep, "/db/execute?queue&wait&timeout=20s", "application/json", c01JSON(stmts, r, pct))
		case "request":
			send(ep, "/db/request", "application/json", c01JSON(stmts, r, pct))
		case "loadtext":
			// RETURNING rows cannot be returned by a text load; keep plain statements
			var plain []string
			for _, s := range stmts {
				if !strings.Contains(s, "RETURNING") {
					plain = append(plain, s)
				}
			}
			if len(plain) == 0 {
				plain = []string{"INSERT INTO t(a) VALUES(" + c01Expr(r, pct, 1) + ")"}
			}
			send(ep, "/db/load", "text/plain", strings.Join(plain, ";\n")+";\n")
		}
	}
	pause := func() {
		if vfThorough() {
			time.Sleep(1100 * time.Millisecond)
		} else {
			time.Sleep(5 * time.Millisecond)
		}
	}
	live := c01Table(a.st)
	results := map[string]string{}
	report := func(path, got string) {
		results[path] = got
		if got == live {
			rep.Count("path-" + path + "-equals-live")
			return
		}
		sig := "replicas-diverge:" + cause + ":" + path + "-vs-live"
		rep.Fail(sig, fmt.Sprintf("program %v\nlive:\n%s\n%s:\n%s", hist, c01Clip(live), path, c01Clip(got)),
			map[string]interface{}{"program": hist, "path": path, "live": live, "other": got})
	}
	// --- replay: close, forced rebuild, the whole log is applied again, later
	a.svc.Close()
	if err := a.st.Close(true); err != nil {
		t.Fatalf("close: %v", err)
	}
	a.ly.Close()
	pause()
	a.st, a.ly = c01NewStore(t, a.dir, id)
	if err := a.st.ForceSnapshotRestore(); err != nil {
		t.Fatal(err)
	}
	if err := a.st.Open(); err != nil {
		t.Fatalf("reopen: %v", err)
	}
	c01Ready(t, a.st)
	report("replay", c01Table(a.st))
	if cdcCap > 0 {
		// model: observed live apply (never-drained channel of this capacity) vs plain apply
		var ss []string
		for i := 1; i <= nReq+1; i++ {
			ss = append(ss, fmt.Sprintf("p:%d:%d", i, i))
		}
		verdict := "same"
		if results["replay"] != live {
			verdict = "differ"
		}
		rep.vfCompare("converge", []string{fmt.Sprintf("observed %d %s", cdcCap, strings.Join(ss, ","))}, []string{verdict}, nil)
	}
	// From here on A's own table is the reference for the snapshot-based paths only if it
	// still equals live; otherwise they would just repeat the same divergence.
	if results["replay"] == live {
		// --- install: snapshot with a truncated log, a new node joins
		a.startHTTP()
		a.post("/db/execute", "application/json", `["INSERT INTO t(a,b,c) VALUES(-1,-2,-3)"]`)
		c01Must(t, "snapshot", c01Retry(a.st, func() error { return a.st.Snapshot(1) }))
		a.post("/db/execute", "application/json", `["INSERT INTO t(a,b,c) VALUES(-4,-5,-6)"]`)
		a.svc.Close()
		live2 := c01Table(a.st)
		pause()
		cst, cly := c01NewStore(t, filepath.Join(dir, "C"), "c"+id)
		if err := cst.Open(); err != nil {
			t.Fatalf("open joiner: %v", err)
		}
		joiner = cst
		c01Must(t, "join", c01Retry(a.st, func() error {
			return a.st.Join(&command.JoinRequest{Id: cst.ID(), Address: cst.Addr(), Voter: true})
		}))
		got := ""
		for deadline := time.Now().Add(60 * time.Second); time.Now().Before(deadline); {
			if got = c01Table(cst); got == live2 {
				break
			}
			time.Sleep(50 * time.Millisecond)
		}
		if got != live2 && cst.AppliedIndex() < a.st.AppliedIndex() { // still catching up: nothing to judge
			c01Abandon("joiner did not reach the leader's applied index within 60 s")
		}
		if got == live2 {
			rep.Count("path-install-equals-live")
		} else {
			rep.Fail("replicas-diverge:nondeterministic-sql-via-"+nondetEndpoint+":install-vs-live",
				fmt.Sprintf("program %v\nleader:\n%s\njoined node:\n%s", hist, c01Clip(live2), c01Clip(got)), map[string]interface{}{"program": hist})
		}
		// the joiner leaves again so that A is a single-node cluster for the recovery
		c01Must(t, "remove joiner", c01Retry(a.st, func() error {
			return a.st.Remove(context.Background(), &command.RemoveNodeRequest{Id: cst.ID()})
		}))
		cst.Close(true)
		cly.Close()
		joiner = nil
		// --- recover: shut down, peers file, reopen
		addr := a.st.Addr()
		if err := a.st.Close(true); err != nil {
			t.Fatalf("close: %v", err)
		}
		a.ly.Close()
		pause()
		a.st, a.ly = c01NewStore(t, a.dir, id)
		os.MkdirAll(filepath.Join(a.dir, "raft"), 0o755)
		_ = addr
		peers := fmt.Sprintf(`[{"id": "%s","address": "%s"}]`, id, a.ly.Addr().String())
		if err := os.WriteFile(filepath.Join(a.dir, "raft/peers.json"), []byte(peers), 0o644); err != nil {
			t.Fatal(err)
		}
		if err := a.st.Open(); err != nil {
			t.Fatalf("recover open: %v", err)
		}
		c01Ready(t, a.st)
		if got := c01Table(a.st); got == live2 {
			rep.Count("path-recover-equals-live")
		} else {
			rep.Fail("replicas-diverge:nondeterministic-sql-via-"+nondetEndpoint+":recover-vs-live",
				fmt.Sprintf("program %v\nbefore:\n%s\nrecovered:\n%s", hist, c01Clip(live2), c01Clip(got)), map[string]interface{}{"program": hist})
		}
	}
	a.st.Close(true)
	a.ly.Close()
	rep.Case(strings.Join(hist, " ; "), strings.Count(live, "\n") > 3)
	rep.Count("program-nondeterminism-via-" + nondetEndpoint)
	if len(rep.Samples) < 4 {
		rep.Sample(map[string]interface{}{"nondeterministic_sql_via": nondetEndpoint, "program": hist, "rows": strings.Count(live, "\n")})
	}
}

func c01Clip(s string) string {
	if len(s) > 1500 {
		return s[:1500] + "…"
	}
	return s
}

// c01EndpointTable checks, with a capturing store, whether each write endpoint hands
// non-deterministic SQL to the store rewritten, and compares with the model's table.
func c01EndpointTable(t *testing.T, rep *vfReport) {
	var seen []string
	m := &MockStore{
		executeFn: func(er *command.ExecuteRequest) ([]*command.ExecuteQueryResponse, uint64, error) {
			for _, s := range er.Request.Statements {
				seen = append(seen, s.Sql)
			}
			return nil, 0, nil
		},
		queryFn: func(qr *command.QueryRequest) ([]*command.QueryRows, uint64, error) {
			for _, s := range qr.Request.Statements {
				seen = append(seen, s.Sql)
			}
			return nil, 0, nil
		},
		requestFn: func(eqr *command.ExecuteQueryRequest) ([]*command.ExecuteQueryResponse, uint64, uint64, error) {
			for _, s := range eqr.Request.Statements {
				seen = append(seen, s.Sql)
			}
			return nil, 0, 0, nil
		},
	}
	c := &mockClusterService{}
	s := New("127.0.0.1:0", m, c, proxy.New(m, c), nil)
	if err := s.Start(); err != nil {
		t.Fatal(err)
	}
	defer s.Close()
	host := "http://" + s.Addr().String()
	body := `["INSERT INTO t(a) VALUES(random())", "INSERT INTO t(a) VALUES(julianday('now'))"]`
	text := "INSERT INTO t(a) VALUES(random());\nINSERT INTO t(a) VALUES(julianday('now'));\n"
	var ops, impl []string
	for _, e := range []struct{ name, model, path, ct, body string }{
		{"/db/execute", "execute", "/db/execute", "application/json", body},
		{"/db/execute?queue", "queued", "/db/execute?queue&wait&noleader&timeout=10s", "application/json", body},
		{"/db/request", "request", "/db/request", "application/json", body},
		{"/db/load(sql-text)", "loadtext", "/db/load", "text/plain", text},
		{"/db/query?level=strong", "querystrong", "/db/query?level=strong", "application/json", `["SELECT random()", "SELECT julianday('now')"]`},
	} {
		seen = nil
		resp, err := http.Post(host+e.path, e.ct, bytes.NewReader([]byte(e.body)))
		if err != nil {
			t.Fatal(err)
		}
		io.Copy(io.Discard, resp.Body)
		resp.Body.Close()
		all := strings.ToLower(strings.Join(seen, " ; "))
		rewritten := len(seen) > 0 && !strings.Contains(all, "random(") && !strings.Contains(all, "'now'")
		ops = append(ops, "endpoint "+e.model)
		impl = append(impl, fmt.Sprint(rewritten))
		rep.Count(fmt.Sprintf("endpoint-%s-rewrites=%v", e.name, rewritten))
		if !rewritten {
			rep.Fail("write-endpoint-forwards-unrewritten-nondeterministic-sql:"+e.name,
				fmt.Sprintf("POST %s with %q reached the store as %q", e.path, e.body, seen), map[string]interface{}{"endpoint": e.name, "forwarded": seen})
		}
	}
	rep.vfCompare("converge", ops, impl, nil)
}

func TestVerifC01(t *testing.T) {
	rep := vfNewReport("C01", "grammar-generated SQL programs (INSERT / INSERT…SELECT / UPDATE / DELETE / REPLACE / RETURNING, parameters, transactions, nested expressions over RANDOM(), RANDOMBLOB(n) and 26 spellings of date/time functions at 'now') POSTed to /db/execute, /db/execute?transaction, /db/execute?queue, /db/request and /db/load (SQL text) of a real HTTP service over a real store; tables compared between live apply, replay after restart, snapshot install on a joining node and recovery; each program sends its non-deterministic SQL through one endpoint class; non-trivial = more than 3 rows; distinct by program text")
	defer rep.Write()
	c01EndpointTable(t, rep)
	r := c01Rng(1)
	classes := []string{"execute", "queued", "request", "loadtext", "execute", "request", "queued"}
	n := vfScale(5, 56)
	defer func() {
		if c01AbandonedN*2 > c01Started {
			rep.Fail("harness-could-not-run", fmt.Sprintf("%d of %d programs abandoned because of machine load", c01AbandonedN, c01Started), nil)
		}
	}()
	for p := 0; p < n; p++ {
		cdcCap := 0
		if p%2 == 1 { // every second program: live apply observed by a stalled CDC consumer
			cdcCap = 1 + r.Intn(2)
		}
		c01Program(t, rep, r, vfScale(5, 10), classes[p%len(classes)], cdcCap)
	}
}

// c01Rng decorrelates seeds: vfNewRng's streams for seeds k and k+1 are the same sequence
// shifted by one draw, so the state is hashed once before use.
func c01Rng(salt uint64) *vfRng {
	r := vfNewRng(salt)
	r.s = r.U64()*0x2545F4914F6CDD1D + salt
	return r
}

/-
Helper lemmas for C06 about frame lists, `ckpt`, `compact` (RqModel/Model/WalCkpt.lean).
-/
import RqModel.Model.WalCkpt
namespace RqModel.WalCkpt

@[ext] theorem Db.ext' {a b : Db} (h1 : a.size = b.size) (h2 : ∀ p, a.page p = b.page p) : a = b := by
  cases a with
  | mk sa pa =>
    cases b with
    | mk sb pb =>
      simp only at h1 h2
      subst h1
      have : pa = pb := funext h2
      subst this
      rfl

/-- every transaction in the list is complete -/
def Closed (fs : List Frame) : Prop := fs = [] ∨ finalSize fs ≠ 0

theorem finalSize_cons_of_ne_nil {f : Frame} {fs : List Frame} (h : fs ≠ []) :
    finalSize (f :: fs) = finalSize fs := by
  cases fs with
  | nil => contradiction
  | cons g gs => rfl

theorem finalSize_append {a b : List Frame} (h : b ≠ []) : finalSize (a ++ b) = finalSize b := by
  induction a with
  | nil => rfl
  | cons f a ih =>
    have : a ++ b ≠ [] := by simp [h]
    rw [List.cons_append, finalSize_cons_of_ne_nil this, ih]

theorem finalSize_drop {fs : List Frame} {n : Nat} (h : fs.drop n ≠ []) :
    finalSize (fs.drop n) = finalSize fs := by
  induction fs generalizing n with
  | nil => simp at h
  | cons f fs ih =>
    cases n with
    | zero => rfl
    | succ n =>
      simp only [List.drop_succ_cons] at h ⊢
      have hne : fs ≠ [] := by intro h0; subst h0; simp at h
      rw [ih h, finalSize_cons_of_ne_nil hne]

theorem closed_nil : Closed [] := Or.inl rfl

theorem committed_of_closed {fs : List Frame} (h : Closed fs) : committed fs = fs := by
  induction fs with
  | nil => rfl
  | cons f fs ih =>
    cases fs with
    | nil =>
      rcases h with h | h
      · cases h
      · simp only [finalSize] at h
        simp [committed, h]
    | cons g gs =>
      have hc : Closed (g :: gs) := by
        rcases h with h | h
        · cases h
        · right; simpa [finalSize] using h
      have := ih hc
      simp only [committed] at this ⊢
      rw [this]

theorem closed_append {a b : List Frame} (ha : Closed a) (hb : Closed b) : Closed (a ++ b) := by
  by_cases h : b = []
  · subst h; simpa using ha
  · right
    rw [finalSize_append h]
    rcases hb with hb | hb
    · exact absurd hb h
    · exact hb

theorem closed_drop {fs : List Frame} (h : Closed fs) (n : Nat) : Closed (fs.drop n) := by
  by_cases hd : fs.drop n = []
  · exact Or.inl hd
  · right
    rw [finalSize_drop hd]
    rcases h with h | h
    · subst h; simp at hd
    · exact h

/-! ### lastVer -/

theorem lastVer_append (a b : List Frame) (p : Nat) :
    lastVer (a ++ b) p = (lastVer b p).or (lastVer a p) := by
  induction a with
  | nil => simp [lastVer]
  | cons f a ih => simp [lastVer, ih, Option.or_assoc]

theorem lastVer_eq_none_iff (fs : List Frame) (p : Nat) :
    lastVer fs p = none ↔ ∀ g ∈ fs, g.pgno ≠ p := by
  induction fs with
  | nil => simp [lastVer]
  | cons f fs ih =>
    simp only [lastVer, Option.or_eq_none_iff, ih, List.mem_cons, forall_eq_or_imp]
    constructor
    · rintro ⟨h1, h2⟩
      refine ⟨?_, h1⟩
      intro hp; simp [hp] at h2
    · rintro ⟨h1, h2⟩
      exact ⟨h2, by simp [h1]⟩

theorem lastVer_take_none {fs : List Frame} {p : Nat} (h : lastVer fs p = none) (n : Nat) :
    lastVer (fs.take n) p = none := by
  rw [lastVer_eq_none_iff] at h ⊢
  intro g hg
  exact h g (List.mem_of_mem_take hg)

/-! ### compact -/

theorem compact_ne_nil {fs : List Frame} (h : fs ≠ []) : compact fs ≠ [] := by
  induction fs with
  | nil => contradiction
  | cons f fs ih =>
    simp only [compact]
    split
    · rename_i hany
      have : fs ≠ [] := by intro h0; subst h0; simp at hany
      exact ih this
    · simp

theorem finalSize_compact (fs : List Frame) : finalSize (compact fs) = finalSize fs := by
  induction fs with
  | nil => rfl
  | cons f fs ih =>
    simp only [compact]
    split
    · rename_i hany
      have hne : fs ≠ [] := by intro h0; subst h0; simp at hany
      rw [ih, finalSize_cons_of_ne_nil hne]
    · by_cases hne : fs = []
      · subst hne; rfl
      · rw [finalSize_cons_of_ne_nil (compact_ne_nil hne), ih, finalSize_cons_of_ne_nil hne]

theorem lastVer_compact (fs : List Frame) (p : Nat) : lastVer (compact fs) p = lastVer fs p := by
  induction fs with
  | nil => rfl
  | cons f fs ih =>
    simp only [compact]
    split
    · rename_i hany
      rw [ih]
      simp only [lastVer]
      by_cases hp : f.pgno = p
      · have : lastVer fs p ≠ none := by
          rw [Ne, lastVer_eq_none_iff]
          intro hall
          simp only [List.any_eq_true, decide_eq_true_eq] at hany
          obtain ⟨g, hg, hgp⟩ := hany
          exact hall g hg (hgp.trans hp)
        cases hl : lastVer fs p with
        | none => exact absurd hl this
        | some v => simp
      · simp [hp]
    · simp only [lastVer, ih]

theorem closed_compact {fs : List Frame} (h : Closed fs) : Closed (compact fs) := by
  rcases h with h | h
  · subst h; exact Or.inl rfl
  · right; rw [finalSize_compact]; exact h

theorem compact_nil_iff {fs : List Frame} : compact fs = [] ↔ fs = [] := by
  constructor
  · intro h
    by_cases hne : fs = []
    · exact hne
    · exact absurd h (compact_ne_nil hne)
  · intro h; subst h; rfl

/-! ### ckpt -/

theorem ckpt_nil (d : Db) : ckpt d [] = d := by simp [ckpt, committed]

theorem ckpt_closed {fs : List Frame} (d : Db) (hc : Closed fs) (hne : fs ≠ []) :
    ckpt d fs = { size := finalSize fs
                  page := fun p => if p = 0 ∨ finalSize fs < p then 0 else (lastVer fs p).getD (d.page p) } := by
  unfold ckpt
  simp only [committed_of_closed hc]
  have : fs.isEmpty = false := by cases fs <;> simp_all
  simp [this]

theorem ckpt_size_closed {fs : List Frame} (d : Db) (hc : Closed fs) (hne : fs ≠ []) :
    (ckpt d fs).size = finalSize fs := by rw [ckpt_closed d hc hne]

/-- SQLite's checkpoint of a compacted WAL equals the checkpoint of the original frames -/
theorem ckpt_compact {fs : List Frame} (d : Db) (hc : Closed fs) : ckpt d (compact fs) = ckpt d fs := by
  by_cases hne : fs = []
  · subst hne; rfl
  · rw [ckpt_closed d (closed_compact hc) (compact_ne_nil hne), ckpt_closed d hc hne]
    simp only [finalSize_compact, lastVer_compact]

theorem ckpt_idem {fs : List Frame} (d : Db) (hc : Closed fs) : ckpt (ckpt d fs) fs = ckpt d fs := by
  by_cases hne : fs = []
  · subst hne; simp [ckpt_nil]
  · rw [ckpt_closed _ hc hne, ckpt_closed d hc hne]
    apply Db.ext'
    · rfl
    intro p
    simp only
    by_cases hp : p = 0 ∨ finalSize fs < p
    · simp [hp]
    · simp only [hp, if_false]
      cases lastVer fs p <;> simp

/-- a partial backfill does not change what readers see -/
theorem ckpt_backfillPages {fs : List Frame} (d : Db) (hc : Closed fs) (n : Nat) :
    ckpt (backfillPages d (fs.take n)) fs = ckpt d fs := by
  by_cases hne : fs = []
  · subst hne; simp [ckpt_nil, backfillPages, lastVer]
  · rw [ckpt_closed _ hc hne, ckpt_closed d hc hne]
    apply Db.ext'
    · rfl
    intro p
    simp only [backfillPages]
    by_cases hp : p = 0 ∨ finalSize fs < p
    · simp [hp]
    · simp only [hp, if_false]
      cases hl : lastVer fs p with
      | some v => simp
      | none => simp [lastVer_take_none hl n]

theorem growOK_spec {sz : Nat} {fs : List Frame} (h : growOK sz fs = true) {p : Nat}
    (h1 : sz < p) (h2 : p ≤ finalSize fs) : lastVer fs p ≠ none := by
  unfold growOK at h
  rw [List.all_eq_true] at h
  have := h p (by simp; omega)
  simp only [Bool.or_eq_true, decide_eq_true_eq] at this
  rcases this with h | h
  · omega
  · intro hn; simp [hn] at h

/-- checkpointing `a` and then `w` equals checkpointing `a ++ w`, provided `w` writes the
pages it adds beyond the size `a` left -/
theorem ckpt_append {a w : List Frame} (d : Db) (ha : Closed a) (hw : Closed w)
    (hg : a ≠ [] → growOK (finalSize a) w = true) : ckpt d (a ++ w) = ckpt (ckpt d a) w := by
  by_cases hwn : w = []
  · subst hwn; simp [ckpt_nil]
  by_cases han : a = []
  · subst han; simp [ckpt_nil]
  have hne : a ++ w ≠ [] := by simp [han]
  rw [ckpt_closed d (closed_append ha hw) hne, ckpt_closed _ hw hwn, ckpt_closed d ha han]
  apply Db.ext'
  · simp [finalSize_append hwn]
  · intro p
    simp only [finalSize_append hwn, lastVer_append]
    by_cases hp : p = 0 ∨ finalSize w < p
    · simp [hp]
    · simp only [hp, if_false]
      cases hl : lastVer w p with
      | some v => simp
      | none =>
        simp only [Option.none_or, Option.getD_none]
        by_cases hpa : finalSize a < p
        · exfalso
          have hp' : p ≤ finalSize w := by omega
          exact growOK_spec (hg han) hpa hp' hl
        · have : ¬ (p = 0 ∨ finalSize a < p) := by omega
          simp [this]

theorem validTx_closed {sz : Nat} {fs : List Frame} (h : validTx sz fs = true) : Closed fs := by
  unfold validTx at h
  simp only [Bool.and_eq_true, decide_eq_true_eq] at h
  exact Or.inr h.1.1

theorem validTx_ne_nil {sz : Nat} {fs : List Frame} (h : validTx sz fs = true) : fs ≠ [] := by
  unfold validTx at h
  simp only [Bool.and_eq_true, decide_eq_true_eq] at h
  intro h0; subst h0; exact h.1.1 rfl

theorem validTx_grow {sz : Nat} {fs : List Frame} (h : validTx sz fs = true) : growOK sz fs = true := by
  unfold validTx at h
  simp only [Bool.and_eq_true] at h
  exact h.2

end RqModel.WalCkpt

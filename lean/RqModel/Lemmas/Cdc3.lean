/-
C25 helper lemmas, part 3: frame facts, HWM handling (follower, buffered, tick), and the
top-level invariant preserved by every operation except restart (part 4).
-/
import RqModel.Lemmas.Cdc2
namespace RqModel.CdcPipe
open RqModel.Fifo

/-! ### what the pipeline steps never touch -/

structure Same (s t : St) : Prop where
  log : t.log = s.log
  keep : t.keepIdx = s.keepIdx
  front : t.front = s.front
  snap : t.snap = s.snap
  maxIn : t.maxIn = s.maxIn
  up : t.up = s.up
  leader : t.leader = s.leader
  lastFed : t.lastFed = s.lastFed
  bsz : t.batchSz = s.batchSz
  chan : t.hwmChan = s.hwmChan

theorem Same.rfl' (s : St) : Same s s := ⟨rfl, rfl, rfl, rfl, rfl, rfl, rfl, rfl, rfl, rfl⟩

theorem Same.trans {a b c : St} (h1 : Same a b) (h2 : Same b c) : Same a c :=
  ⟨h2.log.trans h1.log, h2.keep.trans h1.keep, h2.front.trans h1.front, h2.snap.trans h1.snap,
   h2.maxIn.trans h1.maxIn, h2.up.trans h1.up, h2.leader.trans h1.leader, h2.lastFed.trans h1.lastFed,
   h2.bsz.trans h1.bsz, h2.chan.trans h1.chan⟩

theorem Same.trans' {a b c : St} (h2 : Same b c) (h1 : Same a b) : Same a c := h1.trans h2

theorem same_flush (s : St) : Same s (flushBatcher s) := by
  unfold flushBatcher
  cases s.batcher <;> exact ⟨rfl, rfl, rfl, rfl, rfl, rfl, rfl, rfl, rfl, rfl⟩

theorem same_feed (s : St) (g : Group) : Same s (feedGroup s g) := by
  unfold feedGroup
  split
  · exact Same.rfl' s
  · simp only
    split <;> exact ⟨rfl, rfl, rfl, rfl, rfl, rfl, rfl, rfl, rfl, rfl⟩

theorem same_foldl_feed (s : St) (gs : List Group) : Same s (gs.foldl feedGroup s) := by
  induction gs generalizing s with
  | nil => exact Same.rfl' s
  | cons g gs ih => exact (same_feed s g).trans (ih _)

theorem same_pump (fuel : Nat) (s : St) : Same s (pump fuel s) := by
  induction fuel generalizing s with
  | zero => exact Same.rfl' s
  | succ fuel ih =>
    unfold pump
    split
    · exact Same.rfl' s
    · split
      · split
        · exact Same.trans' (ih _) (by constructor <;> rfl)
        · split
          · exact Same.trans' (ih _) (by constructor <;> rfl)
          · split
            · exact Same.trans' (ih _) (by constructor <;> rfl)
            · split
              · exact Same.trans' (ih _) (by constructor <;> rfl)
              · exact Same.rfl' s
      · split
        · exact Same.rfl' s
        · split
          · exact Same.trans' (ih _) (by constructor <;> rfl)
          · exact Same.trans' (ih _) (by constructor <;> rfl)

theorem same_followerHwm (s : St) (n : Nat) : Same s (followerHwm s n) := by
  unfold followerHwm
  split <;> exact ⟨rfl, rfl, rfl, rfl, rfl, rfl, rfl, rfl, rfl, rfl⟩

theorem groups_same {s t : St} (h : Same s t) : groups t = groups s := groups_eq s t h.log h.keep

/-! ### HWM updates -/

theorem nextFrom_le_deleteRange {α : Type} (q : Q α) (n : Nat) : q.nextFrom ≤ (deleteRange q n).nextFrom := by
  rw [deleteRange_nextFrom]; split <;> omega

/-- a truthful HWM (everything up to `n` has been delivered by another node) handled by the
follower loop -/
theorem followerHwm_good (s : St) (f n : Nat) (hb : Base s f) (hc : Cov s f) (hn : n ≤ s.maxIn) :
    Base (followerHwm s n) f ∧ Cov (followerHwm s n) f := by
  unfold followerHwm
  by_cases hig : n ≤ s.followerPersisted ∨ n = 0
  · rw [if_pos hig]; exact ⟨hb, hc⟩
  · rw [if_neg hig]
    have hitems := deleteRange_items s.fifo n hb.fifo
    have hhigh := deleteRange_highest s.fifo n
    have hnf := deleteRange_nextFrom s.fifo n
    have hnfle := nextFrom_le_deleteRange s.fifo n
    have hmem : ∀ it, it ∈ (deleteRange s.fifo n).items ↔ it ∈ s.fifo.items ∧ n < it.1 := by
      intro it; rw [hitems]; simp [List.mem_filter]
    have hL : ∀ it ∈ (deleteRange s.fifo n).items, ∀ g ∈ it.2, g.idx ≤ it.1 :=
      fun it hit g hg => hb.lab it ((hmem it).1 hit).1 g hg
    have hH : ∀ it, s.held = some it →
        (∀ g ∈ it.2, g.idx ≤ it.1) ∧ it.1 < (deleteRange s.fifo n).nextFrom ∧ it.1 ≤ (deleteRange s.fifo n).highest ∧
        (it ∈ (deleteRange s.fifo n).items ∨ it.1 ≤ s.maxIn) ∧ (n < it.1 ∨ it.1 ≤ s.maxIn) := by
      intro it hit
      obtain ⟨h1, h2, h3, h4, h5⟩ := hb.heldI it hit
      refine ⟨h1, by omega, by rw [hhigh]; exact h3, ?_, by omega⟩
      rcases h4 with h4 | h4
      · by_cases hlt : n < it.1
        · exact Or.inl ((hmem it).2 ⟨h4, hlt⟩)
        · exact Or.inr (by omega)
      · exact Or.inr h4
    have hB : n ≤ max (deleteRange s.fifo n).highest s.maxIn ∧
        (deleteRange s.fifo n).nextFrom ≤ max (deleteRange s.fifo n).highest s.maxIn + 1 ∧
        (deleteRange s.fifo n).highest ≤ f := by
      have := hb.bnd
      rw [hhigh, hnf]
      refine ⟨by omega, ?_, this.2.2⟩
      split <;> omega
    refine ⟨{ hb with fifo := inv_deleteRange _ _ hb.fifo, lab := hL, heldI := hH, bnd := hB }, ?_⟩
    intro g hg hgf
    rcases hc g hg hgf with h | h | h
    · exact Or.inl h
    · rcases h with ⟨it, hit, hlive, hgi⟩ | ⟨it, hit, hlt, hgi⟩
      · by_cases hk : n < it.1
        · right; left; left
          refine ⟨it, (hmem it).2 ⟨hit, hk⟩, ?_, hgi⟩
          unfold Live at *
          simp only
          rw [hnf]
          refine ⟨?_, hk⟩
          split <;> omega
        · left; right
          have := hb.lab it hit g hgi
          simp only; omega
      · by_cases hk : n < it.1
        · right; left; right
          exact ⟨it, hit, hk, hgi⟩
        · left; right
          have := (hb.heldI it hit).1 g hgi
          simp only; omega
    · by_cases hk : n < g.idx
      · right; right
        exact ⟨h.1, by simp only; rw [hhigh]; exact h.2.1, hk⟩
      · left; right
        simp only; omega

theorem foldl_followerHwm_good (l : List Nat) (s : St) (f : Nat) (hb : Base s f) (hc : Cov s f)
    (hl : ∀ n ∈ l, n ≤ s.maxIn) :
    Base (l.foldl followerHwm s) f ∧ Cov (l.foldl followerHwm s) f := by
  induction l generalizing s with
  | nil => exact ⟨hb, hc⟩
  | cons n l ih =>
    simp only [List.foldl_cons]
    obtain ⟨hb', hc'⟩ := followerHwm_good s f n hb hc (hl n (by simp))
    apply ih _ hb' hc'
    intro m hm
    rw [(same_followerHwm s n).maxIn]
    exact hl m (by simp [hm])

theorem same_foldl_followerHwm (l : List Nat) (s : St) : Same s (l.foldl followerHwm s) := by
  induction l generalizing s with
  | nil => exact Same.rfl' s
  | cons n l ih => exact (same_followerHwm s n).trans (ih _)

/-- the leader's HWM tick: prune the FIFO up to the HWM (no loopback) -/
theorem tick_good (s : St) (f : Nat) (hb : Base s f) (hc : Cov s f) :
    Base (stepCore s .tick) f ∧ Cov (stepCore s .tick) f := by
  unfold stepCore
  by_cases h0 : (!s.leader ∨ s.hwm = 0)
  · rw [if_pos h0]; exact ⟨hb, hc⟩
  · rw [if_neg h0]
    simp only [hb.noLb, Bool.false_eq_true, if_false]
    by_cases hp : s.hwm ≤ s.leaderPersisted
    · rw [if_pos hp]
      exact ⟨{ hb with noLb := rfl }, hc⟩
    · rw [if_neg hp]
      have hitems := deleteRange_items s.fifo s.hwm hb.fifo
      have hhigh := deleteRange_highest s.fifo s.hwm
      have hnf := deleteRange_nextFrom s.fifo s.hwm
      have hnfle := nextFrom_le_deleteRange s.fifo s.hwm
      have hmem : ∀ it, it ∈ (deleteRange s.fifo s.hwm).items ↔ it ∈ s.fifo.items ∧ s.hwm < it.1 := by
        intro it; rw [hitems]; simp [List.mem_filter]
      have hL : ∀ it ∈ (deleteRange s.fifo s.hwm).items, ∀ g ∈ it.2, g.idx ≤ it.1 :=
        fun it hit g hg => hb.lab it ((hmem it).1 hit).1 g hg
      have hH : ∀ it, s.held = some it →
          (∀ g ∈ it.2, g.idx ≤ it.1) ∧ it.1 < (deleteRange s.fifo s.hwm).nextFrom ∧
          it.1 ≤ (deleteRange s.fifo s.hwm).highest ∧
          (it ∈ (deleteRange s.fifo s.hwm).items ∨ it.1 ≤ s.maxIn) ∧ (s.hwm < it.1 ∨ it.1 ≤ s.maxIn) := by
        intro it hit
        obtain ⟨h1, h2, h3, h4, h5⟩ := hb.heldI it hit
        refine ⟨h1, by omega, by rw [hhigh]; exact h3, ?_, h5⟩
        rcases h4 with h4 | h4
        · rcases h5 with h5 | h5
          · exact Or.inl ((hmem it).2 ⟨h4, h5⟩)
          · exact Or.inr h5
        · exact Or.inr h4
      have hB : s.hwm ≤ max (deleteRange s.fifo s.hwm).highest s.maxIn ∧
          (deleteRange s.fifo s.hwm).nextFrom ≤ max (deleteRange s.fifo s.hwm).highest s.maxIn + 1 ∧
          (deleteRange s.fifo s.hwm).highest ≤ f := by
        have := hb.bnd
        rw [hhigh, hnf]
        refine ⟨this.1, ?_, this.2.2⟩
        split <;> omega
      refine ⟨{ hb with fifo := inv_deleteRange _ _ hb.fifo, lab := hL, heldI := hH, bnd := hB, noLb := rfl }, ?_⟩
      intro g hg hgf
      rcases hc g hg hgf with h | h | h
      · exact Or.inl h
      · right; left
        rcases h with ⟨it, hit, hlive, hgi⟩ | h
        · left
          refine ⟨it, (hmem it).2 ⟨hit, hlive.2⟩, ?_, hgi⟩
          unfold Live at *
          simp only
          rw [hnf]
          refine ⟨?_, hlive.2⟩
          split <;> omega
        · exact Or.inr h
      · right; right
        exact ⟨h.1, by simp only; rw [hhigh]; exact h.2.1, h.2.2⟩

end RqModel.CdcPipe

/-
C08  Upgrading old snapshot formats is crash-safe.

Model: RqModel/Model/Upgrade.lean (snapshot/upgrader.go Upgrade7To8, Upgrade8To10 as of the
`fix:` commit 5a94866; store/store.go Open order). Lemmas: RqModel/Lemmas/Upgrade.lean.

A node start is `start` = Upgrade7To8 then Upgrade8To10. An interrupted start is
`startCut e s c` for ANY `c : StartCut`: inside Upgrade7To8 (while removing a stale
rsnapshots.tmp, while building it — any partial content —, after its rename with any part of
`snapshots` left) or inside Upgrade8To10 (plan file half written, after any number of the seven
plan operations with a truncated meta.json / database copy / CRC sidecar or any part of
`rsnapshots` left, all operations done but the plan file still present, inside the resume's
clean-up).
-/
import RqModel.Lemmas.Upgrade
import RqModel.Gen.PlanShapes
namespace C08
open RqModel.Upgrade

variable {D : Type}

deriving instance DecidableEq for Except

/-- the store after a successful upgrade: exactly one v10 snapshot, nothing else -/
def upgraded (m : Meta) (d : D) : US D := { new := some [fin m d] }

/-- v8 store: for every finite sequence of interrupted starts, the next complete start succeeds
and leaves exactly the newest original snapshot — same id, index, term and database, CRC sidecar
matching — with every old/temporary directory and the plan file gone. -/
theorem upgrade_crash_safe_v8 (e : D) {l8 : List (S8 D)} {m : Meta} {d : D} (h : C8 l8 m d)
    (cuts : List (StartCut D)) :
    start e (cuts.foldl (startCut e) { old8 := some l8 }) = .ok (upgraded m d) :=
  start_inv e h (foldl_startCut_inv e h cuts (.A none false))

/-- v7 store (two upgrades in a row): the same. `d` is the database inside the newest snapshot's
state file (`e`, the empty database, when it holds no data). -/
theorem upgrade_crash_safe_v7 {e : D} {l7 : List (S7 D)} {m : Meta} {d : D} (h : C7 e l7 m d)
    (cuts : List (StartCut D)) :
    start e (cuts.foldl (startCut e) { old7 := some l7 }) = .ok (upgraded m d) :=
  start_inv7 h (foldl_startCut_inv7 h cuts (.P none))

/-- a start on an already upgraded store changes nothing -/
theorem upgrade_idempotent (e : D) (m : Meta) (d : D) : start e (upgraded m d) = .ok (upgraded m d) := by
  simp [start, u78, u810, u810With, upgraded]

/-- The defect repaired by 5a94866, on the resume branch as it was: after a crash between the
plan's rename and the removal of the plan file, every later start failed. -/
def witnessStore : US Nat := { old8 := some [{ id := 1, dir := true, mt := some ⟨1, 10, 2⟩, db := some 7 }] }
def witnessCrashed : US Nat := startCut 0 witnessStore (.in810 (.inPlan 6 .none))

theorem resume_before_fix_witness :
    startOld 0 witnessCrashed = .error "rename-exists" ∧
    startOld 0 (startCut 0 witnessCrashed (.in810 .start)) = .error "rename-exists" ∧
    startOld 0 (startCut 0 witnessStore (.in810 .planDone)) = .error "copy-nosrc" ∧
    start 0 witnessCrashed = .ok (upgraded ⟨1, 10, 2⟩ 7) := by decide

/-! ### tie to the source (regenerated on every run) -/

def opKind : Op8 → String
  | .mkTmp => "AddMkdirAll" | .mkSnap => "AddMkdirAll" | .writeMeta => "AddWriteMeta"
  | .copyDb => "AddCopyFile" | .calcCrc => "AddCalcCRC32" | .rename => "AddRename" | .rmOld => "AddRemoveAll"

/-- Upgrade8To10 adds exactly the model's seven operations in the model's order, straight-line,
writes the plan before executing it; its resume branch skips the plan when the new directory
exists; Store.Open runs Upgrade7To8, Upgrade8To10, NewStore in this order. -/
theorem upgrade_shape_from_source :
    RqModel.Gen.PlanShapes.upgrade8To10 = planOps.map (fun o => (opKind o, "")) ∧
    RqModel.Gen.PlanShapes.upgradeWriteBeforeExecute = some true ∧
    RqModel.Gen.PlanShapes.upgradeResumeSkipsPlanWhenNewExists = some true ∧
    RqModel.Gen.PlanShapes.openSnapshotCalls = ["Upgrade7To8", "Upgrade8To10", "NewStore"] := by decide

/-! ### non-vacuity -/

example : C8 ([{ id := 1, dir := true, mt := some ⟨1, 10, 2⟩, db := some 7 },
               { id := 2, dir := true, mt := some ⟨2, 20, 2⟩, db := some 9 },
               { id := 3, dir := false, mt := none, db := some 4 }] : List (S8 Nat)) ⟨2, 20, 2⟩ 9 :=
  ⟨by decide, by decide⟩

example : C7 0 ([{ id := 1, mt := some ⟨1, 8, 2⟩, st := .missing },
                 { id := 2, mt := some ⟨2, 18, 2⟩, st := .data 5 }] : List (S7 Nat)) ⟨2, 18, 2⟩ 5 :=
  ⟨by decide, ⟨{ id := 2, mt := some ⟨2, 18, 2⟩, st := .data 5 }, by decide, Or.inr rfl⟩⟩

/-- a v7 store, crash while building rsnapshots.tmp, then crash after five plan operations with a
truncated CRC sidecar, then crash inside the removal of rsnapshots -/
example :
    start 0 ([StartCut.in78 (.building [⟨2, true, none, none⟩]), .in810 (.inPlan 4 .fileTrunc),
              .in810 (.inPlan 6 (.rmJunk []))].foldl (startCut 0)
      ({ old7 := some [{ id := 1, mt := some ⟨1, 8, 2⟩, st := .missing },
                       { id := 2, mt := some ⟨2, 18, 2⟩, st := .data 5 }] } : US Nat))
      = .ok (upgraded ⟨2, 18, 2⟩ 5) := by decide

end C08

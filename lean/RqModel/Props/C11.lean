/-
C11  Open snapshot streams never race with reaping.

Property theorems only. Model: RqModel/Model/Streamer.lean; invariant:
RqModel/Lemmas/Streamer.lean. The theorems hold after EVERY finite interleaving
of: opening streams (any idle timeout), reads, `Close` (repeated any number of
times), the idle callback `checkIdle` (invoked at any time, any number of
times, including after `Close`), short read-locked accessors, `Reap` attempts,
the blocking reaper and its release.
-/
import RqModel.Lemmas.Streamer
import RqModel.Lemmas.StreamerQuiet
import RqModel.Lemmas.LockFacts
import RqModel.Gen.SnapshotLock
namespace C11
open RqModel.Streamer RqModel.Rsync

theorem inv (steps : List Step) : Inv (run {} steps) := run_inv {} steps init_inv

/-- **Reaping excludes open streams.** While a reap holds the write lock no
stream is open (and no other reader is inside), so the files of an open stream
are never removed or rewritten under it; and at most one reap runs. -/
theorem reap_excludes_streams (steps : List Step) :
    (run {} steps).reaping ≤ 1 ∧
    ((run {} steps).reaping = 1 →
      (∀ st ∈ (run {} steps).streams, st.closed = true) ∧ (run {} steps).aux = 0) := by
  have h := inv steps
  refine ⟨h.one, fun hr => ⟨?_, (h.excl hr).2⟩⟩
  intro st hm
  have h0 := (h.excl hr).1
  cases hc : st.closed with
  | true => rfl
  | false =>
    have : st ∈ (run {} steps).streams.filter (fun st => !st.closed) := List.mem_filter.2 ⟨hm, by simp [hc]⟩
    have hpos := List.length_pos_of_mem this
    simp only [openCount] at h0
    omega

/-- a reap attempt succeeds only when no stream is open: the write lock is refused
(or the blocking reaper stays blocked) as long as any stream holds its read lock -/
theorem reap_waits_for_streams (steps : List Step) (st : Stream)
    (hm : st ∈ (run {} steps).streams) (hopen : st.closed = false) :
    ((run {} steps).m.beginWrite "reap").2 ≠ .ok ∧ (run {} steps).m.writeEnabled = false := by
  have h := inv steps
  have hpos : 1 ≤ openCount (run {} steps).streams := by
    have : st ∈ (run {} steps).streams.filter (fun st => !st.closed) := List.mem_filter.2 ⟨hm, by simp [hopen]⟩
    exact List.length_pos_of_mem this
  have hn : (run {} steps).m.numReaders > 0 := by rw [h.count]; omega
  constructor
  · simp only [Mrsw.beginWrite]
    have hne : ("reap" : String) ≠ "" := by decide
    simp only [hne, if_false]
    split
    · simp
    · simp [hn]
  · simp only [Mrsw.writeEnabled, Bool.and_eq_false_iff, decide_eq_false_iff_not]
    right; omega

/-- **Each stream releases its hold exactly once, however it is closed.** After any
interleaving of `Close`, repeated `Close`, and idle callbacks (before, between or
after them), `EndRead` and the underlying `Close` have been executed exactly
once for a closed stream and not at all for an open one; the lock's reader
count equals the number of open streams plus short readers, so it never goes
negative and the "reader count went negative" panic is unreachable. -/
theorem release_exactly_once (steps : List Step) :
    (∀ st ∈ (run {} steps).streams,
      st.endReads = (if st.closed then 1 else 0) ∧ st.rcCloses = (if st.closed then 1 else 0) ∧
      (st.timedOut = true → st.closed = true)) ∧
    (run {} steps).m.numReaders = ((openCount (run {} steps).streams + (run {} steps).aux : Nat) : Int) ∧
    0 ≤ (run {} steps).m.numReaders ∧ (run {} steps).panicked = false := by
  have h := inv steps
  refine ⟨fun st hm => ⟨(h.streams st hm).once, (h.streams st hm).rc, (h.streams st hm).to⟩, h.count, ?_, h.noPanic⟩
  rw [h.count]; omega

/-- a second `Close` (or a late idle callback) on a closed stream does nothing -/
theorem close_idempotent (st : Stream) (now : Nat) (h : st.closed = true) :
    st.close = (st, false) ∧ st.checkIdle now = (st, false) := by
  simp [Stream.close, Stream.checkIdle, h]

/-- **A stalled stream is force-closed by the idle callback.** For an open stream
with a non-zero timeout: the timer is armed; a callback at a time at least
`timeout` after the last read closes it and releases its hold; an earlier
callback (clock not behind the last read) re-arms the timer for exactly
`lastRead + timeout`; afterwards `Read` fails with the timeout error. -/
theorem stalled_stream_force_closed (steps : List Step) (st : Stream)
    (hm : st ∈ (run {} steps).streams) (hopen : st.closed = false) (hto : st.timeout > 0) (now : Nat) :
    st.deadline.isSome = true ∧
    (st.lastRead + st.timeout ≤ now →
      (st.checkIdle now).2 = true ∧ (st.checkIdle now).1.closed = true ∧
      (st.checkIdle now).1.timedOut = true ∧ ∀ t n, (st.checkIdle now).1.read t n = none) ∧
    (st.lastRead ≤ now → now < st.lastRead + st.timeout →
      (st.checkIdle now).2 = false ∧ (st.checkIdle now).1.deadline = some (st.lastRead + st.timeout) ∧
      (st.checkIdle now).1.closed = false) := by
  refine ⟨((inv steps).streams st hm).armed hopen hto, ?_, ?_⟩
  · intro hle
    have hn : ¬ (now - st.lastRead < st.timeout) := by omega
    simp [Stream.checkIdle, hopen, hn, Stream.read]
  · intro h1 h2
    have hn : now - st.lastRead < st.timeout := by omega
    simp only [Stream.checkIdle, hopen, Bool.false_eq_true, if_false, hn, if_true, true_and, and_true]
    congr 1; omega

/-- **Once the remaining holders are gone the blocked reaper proceeds.** In any
reachable state in which every stream is closed (by its owner or by the idle
callback) and the short readers have left, the blocking write acquisition of
`reapLoop` is enabled. -/
theorem stalled_stream_unblocks_reaper (steps : List Step)
    (hall : ∀ st ∈ (run {} steps).streams, st.closed = true) (haux : (run {} steps).aux = 0)
    (hnoreap : (run {} steps).reaping = 0) :
    (run {} steps).m.writeEnabled = true ∧ (RqModel.Streamer.step (run {} steps) .reapBlocking).reaping = 1 := by
  have h := inv steps
  have h0 : openCount (run {} steps).streams = 0 := by
    simp only [openCount]
    rw [List.length_eq_zero_iff, List.filter_eq_nil_iff]
    intro st hm
    simp [hall st hm]
  have hown : (run {} steps).m.owner = "" := by
    by_cases ho : (run {} steps).m.owner = ""
    · exact ho
    · have := h.owner.1 ho; omega
  have hen : (run {} steps).m.writeEnabled = true := by
    simp only [Mrsw.writeEnabled, Bool.and_eq_true, beq_iff_eq, decide_eq_true_eq]
    exact ⟨hown, by rw [h.count, h0, haux]; simp⟩
  refine ⟨hen, ?_⟩
  have hne : ("reap" : String) ≠ "" := by decide
  simp [RqModel.Streamer.step, Mrsw.beginWriteBlocking, hne, hen, hnoreap]

/-- **End to end: stalled streams are force-closed and the blocked reaper then proceeds — for
every schedule.** Take any reachable state and ANY further schedule `sched` that acquires
nothing new (finitely many opens have happened; from now on only closes, idle callbacks at
any times, data-less reads, and releases by short readers / a running reap — in any order and
any number). If the schedule is fair to the pending timers and holders, i.e.
* for every stream that is still open it contains its `Close` or an idle callback at or after
  `lastRead + timeout` (`stalled_stream_force_closed` shows that timer is armed),
* it contains at least as many short-reader releases / reap releases as are outstanding,
then at its end every stream is closed, the lock is idle, and the blocking write acquisition
of `reapLoop` succeeds. -/
theorem stalled_streams_then_reaper_proceeds (steps sched : List Step)
    (hq : ∀ st ∈ sched, Quiet st = true)
    (hstreams : ∀ i a, (run {} steps).streams[i]? = some a →
      a.closed = true ∨ ∃ st ∈ sched, Ends st i a)
    (haux : (run {} steps).aux ≤ sched.count .auxEnd)
    (hreap : (run {} steps).reaping ≤ sched.count .reapEnd) :
    (∀ st ∈ (run {} (steps ++ sched)).streams, st.closed = true) ∧
    (run {} (steps ++ sched)).m.writeEnabled = true ∧
    (RqModel.Streamer.step (run {} (steps ++ sched)) .reapBlocking).reaping = 1 := by
  have hrun : run {} (steps ++ sched) = run (run {} steps) sched := by simp [run, List.foldl_append]
  obtain ⟨ha0, hr0⟩ := run_quiet_counts sched (run {} steps) hq haux hreap
  have hall : ∀ st ∈ (run {} (steps ++ sched)).streams, st.closed = true := by
    intro st hm
    rw [hrun] at hm
    obtain ⟨i, hi, hget⟩ := List.mem_iff_getElem.1 hm
    have hlen := run_quiet_length sched (run {} steps) hq
    have hi0 : i < (run {} steps).streams.length := by omega
    obtain ⟨a', hg', hc'⟩ := run_quiet_closed sched (run {} steps) hq i _
      (List.getElem?_eq_getElem hi0) (hstreams i _ (List.getElem?_eq_getElem hi0))
    rw [List.getElem?_eq_getElem hi] at hg'
    simp only [Option.some.injEq] at hg'
    rw [← hget, hg']; exact hc'
  have := stalled_stream_unblocks_reaper (steps ++ sched) hall (by rw [hrun]; exact ha0) (by rw [hrun]; exact hr0)
  exact ⟨hall, this.1, this.2⟩

/-- the hypotheses of `stalled_streams_then_reaper_proceeds` are satisfiable by a non-trivial
run: two streams are open (one with a 30 ns idle timeout, last read at 10; one without a
timeout) and a short reader is inside; the further schedule has the first stream's idle
callback at 45 (≥ 10 + 30), the second stream's own `Close`, and the short reader's release —
after which the blocked reaper gets the lock -/
example :
    let steps : List Step := [.open_ 30 0, .open_ 0 0, .auxBegin, .read 0 10 4]
    let sched : List Step := [.checkIdle 0 45, .close 1, .auxEnd]
    (∀ st ∈ (run {} (steps ++ sched)).streams, st.closed = true) ∧
    (run {} (steps ++ sched)).m.writeEnabled = true ∧
    (RqModel.Streamer.step (run {} (steps ++ sched)) .reapBlocking).reaping = 1 := by
  intro steps sched
  refine stalled_streams_then_reaper_proceeds steps sched (by decide) ?_ (by decide) (by decide)
  intro i a h
  match i with
  | 0 =>
    have h0 : (run {} steps).streams[0]? = some ⟨30, 10, some 30, false, false, 0, 0⟩ := by decide
    rw [h0] at h
    cases h
    exact Or.inr ⟨.checkIdle 0 45, by decide, Or.inr ⟨45, rfl, by decide⟩⟩
  | 1 =>
    exact Or.inr ⟨.close 1, by decide, Or.inl rfl⟩
  | n + 2 =>
    have hlen : (run {} steps).streams.length = 2 := by decide
    have : (run {} steps).streams[n + 2]? = none := List.getElem?_eq_none (by omega)
    rw [this] at h
    cases h

/-- **Every release in snapshot/store.go is accounted for** (regenerated): each function's
`BeginRead`/`BeginReadBlocking`/`BeginWrite`/`BeginWriteBlocking` is immediately followed by
the matching deferred release, except the read lock taken by `Open`, which is released in
exactly three other places — `Open`'s own error path, `LockingStreamer.Close` and
`LockingStreamer.checkIdle` — i.e. it is handed to the stream, whose exactly-once release is
`release_exactly_once`. This replaces the protocol assumption "End is only called by a holder"
for the snapshot store. -/
theorem releases_are_paired :
    RqModel.Gen.SnapshotLock.lockUse =
      [("EnsureVerify", 1, 1, 0), ("LatestIndexTerm", 1, 1, 0), ("Len", 1, 1, 0), ("ListAll", 1, 1, 0),
       ("LockingStreamer.Close", 0, 0, 1), ("LockingStreamer.checkIdle", 0, 0, 1), ("Open", 1, 0, 1),
       ("Reap", 1, 1, 0), ("Stats", 1, 1, 0), ("Verify", 1, 1, 0), ("reapLoop", 1, 1, 0)] := by decide

/-! ### regenerated facts -/

/-- `Close` and `checkIdle` hold `l.mu` for their whole body (so the `closed` test
and the release are one critical section); `Read` takes no lock; the lock
primitives are atomic (C34). -/
theorem lock_discipline :
    RqModel.LockFacts.wholeBody "snapshot.LockingStreamer.Close" = true ∧
    RqModel.LockFacts.wholeBody "snapshot.LockingStreamer.checkIdle" = true ∧
    RqModel.LockFacts.lockFree "snapshot.LockingStreamer.Read" = true ∧
    RqModel.LockFacts.wholeBody "internal/rsync.MultiRSW.BeginRead" = true ∧
    RqModel.LockFacts.wholeBody "internal/rsync.MultiRSW.EndRead" = true ∧
    RqModel.LockFacts.wholeBody "internal/rsync.MultiRSW.BeginWrite" = true ∧
    RqModel.LockFacts.wholeBody "internal/rsync.MultiRSW.BeginWriteBlocking" ["if"] true = true ∧
    RqModel.LockFacts.wholeBody "internal/rsync.MultiRSW.EndWrite" = true := by decide

/-- **Where the store takes and hands over the lock** (regenerated from snapshot/store.go):
`Reap` takes the write lock first and defers its release; `reapLoop` brackets `s.reap()` with
the blocking write lock; `reap`/`reapInternal` are called from nowhere else; `Open` takes the
read lock first, gives it back only on its error path, and its success return hands it to a
`LockingStreamer` (the model's `open_` step). -/
theorem lock_brackets :
    RqModel.Gen.SnapshotLock.reapTakesWriteLockFirstAndDefersRelease = true ∧
    RqModel.Gen.SnapshotLock.reapLoopBracketsReapWithBlockingWriteLock = true ∧
    RqModel.Gen.SnapshotLock.reapCallers = ["Reap->reap", "reap->reapInternal", "reapLoop->reap"] ∧
    RqModel.Gen.SnapshotLock.openTakesReadLockFirst = true ∧
    RqModel.Gen.SnapshotLock.openReleasesReadLockOnlyOnError = true ∧
    RqModel.Gen.SnapshotLock.openHandsLockToLockingStreamer = true := by decide

/-- **A `Read` never disarms the idle timer**, whatever it returns (data, EOF, an error): in
the model `read` leaves the deadline alone, and in the current sources (regenerated)
`LockingStreamer.Read` makes no call on the timer at all. So a consumer that reads to EOF, or
hits a read error, and then stalls without `Close` is still force-closed. -/
theorem read_leaves_timer_armed (st st' : Stream) (now n : Nat) (h : st.read now n = some st') :
    st'.deadline = st.deadline ∧ st'.closed = st.closed ∧
    RqModel.Gen.SnapshotLock.streamerReadFound = true ∧
    RqModel.Gen.SnapshotLock.streamerReadTimerCalls = 0 := by
  refine ⟨?_, ?_, by decide, by decide⟩ <;>
  · unfold Stream.read at h
    split at h
    · cases h
    · simp only [Option.some.injEq] at h
      subst h
      split <;> rfl

/-- Readers are refused, not queued, while a reap holds the lock: `Open`, `ListAll`, `Len`,
`Stats` use the non-blocking `BeginRead`. Exclusion is preserved (this is what
`reap_excludes_streams` needs); the cost is availability — e.g. raft.NewRaft's
`snapshots.List()/Open()` right after a recovery can fail once while the background reaper
runs. Not a violation of the property as written. -/
theorem readers_refused_during_reap (steps : List Step) (h : (run {} steps).reaping = 1) :
    ((run {} steps).m.beginRead).2 = .conflict ∧ (run {} steps).m.readEnabled = false := by
  have hown := (inv steps).owner.2 h
  simp [Mrsw.beginRead, Mrsw.readEnabled, hown]

/-! ### non-vacuity: Close racing with the idle callback, then the reaper gets in -/
example :
    let s := run {} [.open_ 30 0, .open_ 0 0, .reapTry, .read 0 10 4, .checkIdle 0 35, .checkIdle 0 40,
                     .close 0, .close 0, .close 1, .checkIdle 1 99, .reapBlocking]
    s.reaping = 1 ∧ s.m.numReaders = 0 ∧ s.streams.map (·.endReads) = [1, 1] ∧
    s.streams.map (·.timedOut) = [true, false] := by decide

end C11

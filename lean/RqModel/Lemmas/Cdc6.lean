/-
C25 helper lemmas, part 6: the drain lemma, flags after the healing suffix, and the link
between changes and event groups.
-/
import RqModel.Lemmas.Cdc5
namespace RqModel.CdcPipe
open RqModel.Fifo

/-! ### a leader with a working endpoint empties what it can emit -/

def pendCount (s : St) : Nat :=
  (s.fifo.items.filter (fun p => decide (s.fifo.nextFrom ≤ p.1))).length

theorem pump_drains (fuel : Nat) (s : St) (hq : Inv s.fifo) (hl : s.leader = true) (hu : s.up = true)
    (hfuel : 2 * pendCount s + (if s.held.isSome then 1 else 0) < fuel) :
    (pump fuel s).held = none ∧ (pump fuel s).fifo.nextEv = none := by
  induction fuel generalizing s with
  | zero => omega
  | succ fuel ih =>
    unfold pump
    simp only [hl, Bool.not_true, Bool.false_eq_true, if_false]
    cases hheld : s.held with
    | some it =>
      obtain ⟨k, b⟩ := it
      simp only
      simp only [hheld, Option.isSome_some, if_true] at hfuel
      by_cases hk : k ≤ s.hwm
      · rw [if_pos hk]
        apply ih
        · exact hq
        · rfl
        · exact hu
        · show 2 * pendCount s + _ < fuel
          simp only [Option.isSome_none, Bool.false_eq_true, if_false]
          omega
      · rw [if_neg hk]
        by_cases hbad : s.decodable b = false
        · rw [if_pos hbad]
          apply ih
          · exact hq
          · rfl
          · exact hu
          · show 2 * pendCount s + _ < fuel
            simp only [Option.isSome_none, Bool.false_eq_true, if_false]
            omega
        rw [if_neg hbad, if_pos hu]
        apply ih
        · exact hq
        · rfl
        · exact hu
        · show 2 * pendCount s + _ < fuel
          simp only [Option.isSome_none, Bool.false_eq_true, if_false]
          omega
    | none =>
      simp only
      simp only [hheld, Option.isSome_none, Bool.false_eq_true, if_false] at hfuel
      cases hne : s.fifo.nextEv with
      | none =>
        rw [consume_none _ hne]
        exact ⟨hheld, hne⟩
      | some e =>
        obtain ⟨k, b⟩ := e
        rw [consume_some _ _ hne]
        simp only
        have hseek : seek s.fifo.items s.fifo.nextFrom = some (k, b) := by rw [← hq.head]; exact hne
        have hfil := filter_ge_of_seek _ hq.sorted _ _ hseek
        have hq' : Inv { s.fifo with nextFrom := k + 1, nextEv := seek s.fifo.items (k + 1) } :=
          ⟨hq.sorted, hq.bounded, rfl⟩
        have hcount : pendCount s =
            (s.fifo.items.filter (fun p => decide (k + 1 ≤ p.1))).length + 1 := by
          unfold pendCount; rw [hfil]; simp
        by_cases hk : k ≤ s.hwm
        · rw [if_pos hk]
          apply ih
          · exact hq'
          · rfl
          · exact hu
          · show 2 * (s.fifo.items.filter (fun p => decide (k + 1 ≤ p.1))).length + _ < fuel
            simp only [hheld, Option.isSome_none, Bool.false_eq_true, if_false]
            omega
        · rw [if_neg hk]
          apply ih
          · exact hq'
          · rfl
          · exact hu
          · show 2 * (s.fifo.items.filter (fun p => decide (k + 1 ≤ p.1))).length + _ < fuel
            simp only [Option.isSome_some, if_true]
            omega

theorem pumpAll_drains (s : St) (hq : Inv s.fifo) (hl : s.leader = true) (hu : s.up = true) :
    (pumpAll s).held = none ∧ (pumpAll s).fifo.nextEv = none := by
  apply pump_drains _ s hq hl hu
  have : pendCount s ≤ s.fifo.items.length := List.length_filter_le _ _
  split <;> omega

/-- in a drained state with an empty batcher every group is done -/
theorem done_of_drained (s : St) (ht : Top s) (hbat : s.batcher = []) (hheld : s.held = none)
    (hne : s.fifo.nextEv = none) : ∀ g ∈ groups s, DoneG s g := by
  intro g hg
  have hgf : g.idx ≤ s.front := by
    rw [mem_groups] at hg
    obtain ⟨e, he, hge⟩ := hg
    have := ht.logOk e he
    rw [stream_single_idx s.keepIdx e this.2.2 g hge]
    exact this.1
  rcases ht.cov g hg hgf with h | h | h
  · exact h
  · exfalso
    rcases h with ⟨it, hit, hlive, _⟩ | ⟨it, hit, _, _⟩
    · have hs : seek s.fifo.items s.fifo.nextFrom = none := by rw [← ht.base.fifo.head]; exact hne
      unfold seek at hs
      rw [List.find?_eq_none] at hs
      have := hs it hit
      simp at this
      have := hlive.1
      omega
    · rw [hheld] at hit; cases hit
  · exfalso
    have h1 : g ∈ s.batcher := h.1
    rw [hbat] at h1
    exact absurd h1 (by simp)

/-! ### changes and groups -/

theorem changesFrom_fst (k j : Nat) (l : List Nat) : ∀ c ∈ changesFrom k j l, c.1 = k := by
  induction l generalizing j with
  | nil => simp [changesFrom]
  | cons n rest ih =>
    unfold changesFrom
    split
    · exact ih (j + 1)
    · intro c hc
      simp at hc
      rcases hc with hc | hc
      · rw [hc]
      · exact ih (j + 1) c hc

theorem change_in_nonTx (k : Nat) (keep : Bool) (label j : Nat) (l : List Nat) :
    ∀ c ∈ changesFrom k j l, ∃ g ∈ streamNonTx k keep label j l, c ∈ g.chg := by
  induction l generalizing label j with
  | nil => simp [changesFrom]
  | cons n rest ih =>
    unfold changesFrom streamNonTx
    by_cases hn : n = 0
    · simp only [hn, if_true]; exact ih label (j + 1)
    · simp only [hn, if_false]
      intro c hc
      simp only [List.mem_cons] at hc
      rcases hc with hc | hc
      · exact ⟨⟨label, [(k, j)]⟩, by simp, by simp [hc]⟩
      · obtain ⟨g, hg, hcg⟩ := ih (if keep then label else 0) (j + 1) c hc
        exact ⟨g, by simp [hg], hcg⟩

/-- every change of a single-group entry travels in a group labelled with the entry's index -/
theorem change_in_group (keep : Bool) (e : Entry) (hs : single e = true) :
    ∀ c ∈ changesFrom e.idx 0 e.stmts, ∃ g ∈ streamEntryWith keep e, g.idx = e.idx ∧ c ∈ g.chg ∧ c.1 = e.idx := by
  intro c hc
  have hfst := changesFrom_fst e.idx 0 e.stmts c hc
  have hidx := stream_single_idx keep e hs
  by_cases htx : e.tx = true
  · have : streamEntryWith keep e = [⟨e.idx, changesFrom e.idx 0 e.stmts⟩] := by
      unfold streamEntryWith
      simp only [htx, if_true]
      cases hcs : changesFrom e.idx 0 e.stmts with
      | nil => rw [hcs] at hc; simp at hc
      | cons a l => rfl
    exact ⟨⟨e.idx, changesFrom e.idx 0 e.stmts⟩, by rw [this]; simp, rfl, hc, hfst⟩
  · have htx' : e.tx = false := by simpa using htx
    obtain ⟨g, hg, hcg⟩ := change_in_nonTx e.idx keep e.idx 0 e.stmts c hc
    have hg' : g ∈ streamEntryWith keep e := by
      unfold streamEntryWith
      simp only [htx', Bool.false_eq_true, if_false]
      exact hg
    exact ⟨g, hg', hidx g hg', hcg, hfst⟩

/-! ### bookkeeping along a run -/

theorem run_append (s : St) (a b : List Op) : run s (a ++ b) = run (run s a) b := by
  induction a generalizing s with
  | nil => rfl
  | cons op a ih => simp [run, ih]

theorem log_of_run (s : St) (ops : List Op) (ht : Top s) (hwf : wfOps (lastIdx s.log) ops) :
    (∀ x ∈ s.log, x ∈ (run s ops).log) ∧ ∀ e, Op.entry e ∈ ops → e ∈ (run s ops).log := by
  induction ops generalizing s with
  | nil => exact ⟨fun x hx => hx, fun e he => by simp at he⟩
  | cons op rest ih =>
    unfold run
    have hlog := stepOp_log s op ht
    cases op with
    | entry e =>
      obtain ⟨h1, h2, h3⟩ := hwf
      have ht' := top_step s (.entry e) ht ⟨h1, h2⟩
      simp only at hlog
      obtain ⟨i1, i2⟩ := ih _ ht' (by rw [hlog, lastIdx_append]; exact h3)
      refine ⟨fun x hx => i1 x (by rw [hlog]; simp [hx]), ?_⟩
      intro e' he'
      simp only [List.mem_cons] at he'
      rcases he' with he' | he'
      · cases he'; exact i1 e (by rw [hlog]; simp)
      · exact i2 e' he'
    | timer =>
      obtain ⟨i1, i2⟩ := ih _ (top_step s .timer ht trivial) (by rw [hlog]; exact hwf)
      exact ⟨fun x hx => i1 x (by rw [hlog]; exact hx), fun e he => i2 e (by simpa using he)⟩
    | sync =>
      obtain ⟨i1, i2⟩ := ih _ (top_step s .sync ht trivial) (by rw [hlog]; exact hwf)
      exact ⟨fun x hx => i1 x (by rw [hlog]; exact hx), fun e he => i2 e (by simpa using he)⟩
    | leader b =>
      obtain ⟨i1, i2⟩ := ih _ (top_step s (.leader b) ht trivial) (by rw [hlog]; exact hwf)
      exact ⟨fun x hx => i1 x (by rw [hlog]; exact hx), fun e he => i2 e (by simpa using he)⟩
    | endpoint b =>
      obtain ⟨i1, i2⟩ := ih _ (top_step s (.endpoint b) ht trivial) (by rw [hlog]; exact hwf)
      exact ⟨fun x hx => i1 x (by rw [hlog]; exact hx), fun e he => i2 e (by simpa using he)⟩
    | hwm n =>
      obtain ⟨i1, i2⟩ := ih _ (top_step s (.hwm n) ht trivial) (by rw [hlog]; exact hwf)
      exact ⟨fun x hx => i1 x (by rw [hlog]; exact hx), fun e he => i2 e (by simpa using he)⟩
    | tick =>
      obtain ⟨i1, i2⟩ := ih _ (top_step s .tick ht trivial) (by rw [hlog]; exact hwf)
      exact ⟨fun x hx => i1 x (by rw [hlog]; exact hx), fun e he => i2 e (by simpa using he)⟩
    | restart =>
      obtain ⟨i1, i2⟩ := ih _ (top_step s .restart ht trivial) (by rw [hlog]; exact hwf)
      exact ⟨fun x hx => i1 x (by rw [hlog]; exact hx), fun e he => i2 e (by simpa using he)⟩

theorem wfOps_append (last : Nat) (a b : List Op) (ha : wfOps last a)
    (hb : ∀ last', wfOps last' b) : wfOps last (a ++ b) := by
  induction a generalizing last with
  | nil => exact hb last
  | cons op a ih =>
    cases op with
    | entry e => exact ⟨ha.1, ha.2.1, ih _ ha.2.2⟩
    | timer => exact ih _ ha
    | sync => exact ih _ ha
    | leader b => exact ih _ ha
    | endpoint b => exact ih _ ha
    | hwm n => exact ih _ ha
    | tick => exact ih _ ha
    | restart => exact ih _ ha

end RqModel.CdcPipe

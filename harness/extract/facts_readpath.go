package main

// ReadPath: the guard / step order of the read and write entry points of the Store
// (C02, C16, C38; also usable by C20). For each function a flat, ordered token list
// is emitted:
//
//   ("if",   <condition source>)      start of an if statement (after the calls of its init/condition)
//   ("else", "")  ("end", "")         structure of if / for / select
//   ("for",  <condition source>)
//   ("select", "") ("case", <comm source>)
//   ("call", <callee path>)           every call whose callee is rooted at the receiver `s`,
//                                     at `p` (pragma check), `ctx`, or `IsStaleRead`, in EVALUATION order
//                                     (arguments before the call itself)
//   ("ret",  <source of the last result>)   a return statement
//
// Function literals are not descended into. Statements that contain none of the
// above produce no token. A function that is not found yields the empty list, which
// makes every dependent theorem fail.

import (
	"go/ast"
	"os"
	"path/filepath"
	"sort"
	"strings"
)

type rpTok struct{ k, v string }

func init() {
	register("ReadPath", func(x *X) {
		emit := func(name, recv, fn string) {
			var toks []rpTok
			if fd := x.Func("store", recv, fn); fd != nil && fd.Body != nil {
				toks = rpBlock(x, fd.Body.List)
			}
			var parts []string
			for _, t := range toks {
				parts = append(parts, "("+LeanStr(t.k)+", "+LeanStr(t.v)+")")
			}
			x.Comment("store/store.go " + fn)
			x.Raw("def " + name + " : List (String × String) := [\n  " + strings.Join(parts, ",\n  ") + "]")
			// the skeleton: only what bears on leadership / level / freshness decisions, so that
			// unrelated guards (nil checks, pragma check, compression errors, throttling) can
			// come and go without touching the proof obligations
			parts = nil
			for _, t := range rpSkeleton(toks) {
				parts = append(parts, "("+LeanStr(t.k)+", "+LeanStr(t.v)+")")
			}
			x.Comment("store/store.go " + fn + " (skeleton)")
			x.Raw("def " + name + "Skel : List (String × String) := [\n  " + strings.Join(parts, ",\n  ") + "]")
		}
		emit("waitLin", "Store", "waitForLinearizableRead")
		emit("fsmWaitIndex", "Store", "fsmWaitIndex")
		emit("query", "Store", "Query")
		emit("request", "Store", "Request")
		emit("execute", "Store", "Execute")
		emit("storeIsStaleRead", "Store", "isStaleRead")
		emit("isStaleReadFn", "", "IsStaleRead")
		emit("fsmApply", "Store", "fsmApply")
		emit("fsmRestore", "Store", "fsmRestore")
		emit("isVoter", "Store", "IsVoter")

		// every write of strongReadTerm in package store: "<Func>: <call source>", sorted
		var stores []string
		for _, f := range x.Pkg("store") {
			for _, d := range f.Decls {
				fd, ok := d.(*ast.FuncDecl)
				if !ok || fd.Body == nil {
					continue
				}
				ast.Inspect(fd.Body, func(m ast.Node) bool {
					if c, ok := m.(*ast.CallExpr); ok && x.Src(c.Fun) == "s.strongReadTerm.Store" {
						stores = append(stores, fd.Name.Name+": "+x.Src(c))
					}
					return true
				})
			}
		}
		// the raft version the tree builds against (go.mod), for the transcribed configuration.go
		ver := ""
		if b, err := os.ReadFile(filepath.Join(x.repo, "go.mod")); err == nil {
			for _, line := range strings.Split(string(b), "\n") {
				f := strings.Fields(line)
				if len(f) >= 2 && f[0] == "github.com/hashicorp/raft" {
					ver = f[1]
				}
			}
		}
		x.Comment("go.mod: github.com/hashicorp/raft")
		x.DefString("raftVersion", ver)
		sort.Strings(stores)
		x.Comment("store/*.go: every call of s.strongReadTerm.Store")
		x.DefStrings("strongReadTermStores", stores)
	})
}

func rpRooted(path string) bool {
	for _, p := range []string{"s.", "p.", "ctx.", "n."} {
		if strings.HasPrefix(path, p) {
			return true
		}
	}
	return path == "IsStaleRead" || strings.HasPrefix(path, "time.Since") || strings.HasSuffix(path, ".Nanoseconds") ||
		strings.HasSuffix(path, ".IsZero") || strings.HasSuffix(path, ".Sub")
}

// rpCalls returns the interesting calls inside n in evaluation order (sorted by the
// position of the closing parenthesis), not descending into function literals.
func rpCalls(x *X, n ast.Node) []rpTok {
	if n == nil {
		return nil
	}
	type pc struct {
		pos  int
		path string
	}
	var cs []pc
	ast.Inspect(n, func(m ast.Node) bool {
		switch c := m.(type) {
		case *ast.FuncLit:
			return false
		case *ast.CallExpr:
			p := x.Src(c.Fun)
			if rpRooted(p) {
				cs = append(cs, pc{int(c.Rparen), p})
			}
		}
		return true
	})
	sort.Slice(cs, func(i, j int) bool { return cs[i].pos < cs[j].pos })
	var out []rpTok
	for _, c := range cs {
		out = append(out, rpTok{"call", c.path})
	}
	return out
}

func rpBlock(x *X, stmts []ast.Stmt) []rpTok {
	var out []rpTok
	for _, st := range stmts {
		out = append(out, rpStmt(x, st)...)
	}
	return out
}

func rpStmt(x *X, st ast.Stmt) []rpTok {
	var out []rpTok
	switch s := st.(type) {
	case *ast.IfStmt:
		if s.Init != nil {
			out = append(out, rpCalls(x, s.Init)...)
		}
		out = append(out, rpCalls(x, s.Cond)...)
		body := rpBlock(x, s.Body.List)
		var els []rpTok
		if s.Else != nil {
			switch e := s.Else.(type) {
			case *ast.BlockStmt:
				els = rpBlock(x, e.List)
			default:
				els = rpStmt(x, e)
			}
		}
		if len(body) == 0 && len(els) == 0 && len(out) == 0 {
			return nil
		}
		out = append(out, rpTok{"if", x.Src(s.Cond)})
		out = append(out, body...)
		if s.Else != nil {
			out = append(out, rpTok{"else", ""})
			out = append(out, els...)
		}
		out = append(out, rpTok{"end", ""})
	case *ast.ForStmt:
		body := rpBlock(x, s.Body.List)
		out = append(out, rpCalls(x, s.Cond)...)
		out = append(out, rpTok{"for", x.Src(s.Cond)})
		out = append(out, body...)
		out = append(out, rpTok{"end", ""})
	case *ast.RangeStmt:
		body := rpBlock(x, s.Body.List)
		if len(body) == 0 {
			return nil
		}
		out = append(out, rpTok{"for", "range " + x.Src(s.X)})
		out = append(out, body...)
		out = append(out, rpTok{"end", ""})
	case *ast.SelectStmt:
		out = append(out, rpTok{"select", ""})
		for _, c := range s.Body.List {
			cc := c.(*ast.CommClause)
			if cc.Comm != nil {
				out = append(out, rpCalls(x, cc.Comm)...)
				out = append(out, rpTok{"case", x.Src(cc.Comm)})
			} else {
				out = append(out, rpTok{"case", "default"})
			}
			out = append(out, rpBlock(x, cc.Body)...)
		}
		out = append(out, rpTok{"end", ""})
	case *ast.BlockStmt:
		out = append(out, rpBlock(x, s.List)...)
	case *ast.ReturnStmt:
		out = append(out, rpCalls(x, s)...)
		last := ""
		if len(s.Results) > 0 {
			last = x.Src(s.Results[len(s.Results)-1])
		}
		out = append(out, rpTok{"ret", last})
	case *ast.DeferStmt:
		// deferred closures run at return; record the calls they make as one token group
		if fl, ok := s.Call.Fun.(*ast.FuncLit); ok {
			out = append(out, rpTok{"defer", ""})
			out = append(out, rpBlock(x, fl.Body.List)...)
			out = append(out, rpTok{"end", ""})
		} else {
			out = append(out, rpTok{"defer", x.Src(s.Call.Fun)})
		}
	default:
		out = append(out, rpCalls(x, st)...)
	}
	return out
}

// ---- skeleton filter ------------------------------------------------------------

var rpRelevantCalls = map[string]bool{
	"s.IsVoter": true, "s.raft.CurrentTerm": true, "s.waitForLinearizableRead": true, "s.raft.State": true,
	"s.Ready": true, "s.raft.Apply": true, "s.execute": true, "s.strongReadTerm.Store": true,
	"s.strongReadTerm.Load": true, "s.isStaleRead": true, "s.db.QueryWithContext": true, "s.RORWCount": true,
	"s.raft.CommitIndex": true, "s.VerifyLeader": true, "s.fsmWaitIndex": true, "s.fsmTarget.Subscribe": true,
	"s.raft.LastContact": true, "s.fsmUpdateTime.Load": true, "s.appendedAtTime.Load": true, "s.fsmIdx.Load": true,
	"s.raftTn.CommandCommitIndex": true, "IsStaleRead": true,
}

var rpRelevantCond = []string{"Level", "isLeader", "raft.State", "Ready()", "isStaleRead", "nRW", "nRO",
	"ErrStrongReadNeeded", "strongReadTerm", "CurrentTerm", "raft.ErrNotLeader", "raft.ErrLeadershipLost", "raft.Leader"}

func rpCondRelevant(c string) bool {
	for _, k := range rpRelevantCond {
		if strings.Contains(c, k) {
			return true
		}
	}
	return false
}

type rpNode struct {
	tok      rpTok
	block    bool
	children []*rpNode
}

// rpParse rebuilds the block structure of a flat token list.
func rpParse(toks []rpTok, i int) ([]*rpNode, int) {
	var out []*rpNode
	for i < len(toks) {
		t := toks[i]
		switch t.k {
		case "if", "for", "select", "defer":
			if t.k == "defer" && t.v != "" {
				out = append(out, &rpNode{tok: t})
				i++
				continue
			}
			kids, j := rpParse(toks, i+1)
			out = append(out, &rpNode{tok: t, block: true, children: kids})
			i = j + 1 // skip "end"
		case "end":
			return out, i
		default:
			out = append(out, &rpNode{tok: t})
			i++
		}
	}
	return out, i
}

func rpHasRelevant(ns []*rpNode) bool {
	for _, n := range ns {
		if n.block {
			if rpCondRelevant(n.tok.v) || rpHasRelevant(n.children) {
				return true
			}
		} else if n.tok.k == "call" && rpRelevantCalls[n.tok.v] {
			return true
		}
	}
	return false
}

func rpFilter(ns []*rpNode, top bool) []rpTok {
	var out []rpTok
	prevRelevantCall := false
	for _, n := range ns {
		if n.block {
			keep := rpCondRelevant(n.tok.v) || rpHasRelevant(n.children) || prevRelevantCall
			prevRelevantCall = false
			if !keep {
				continue
			}
			out = append(out, n.tok)
			out = append(out, rpFilter(n.children, false)...)
			out = append(out, rpTok{"end", ""})
			continue
		}
		switch n.tok.k {
		case "call":
			if rpRelevantCalls[n.tok.v] {
				out = append(out, n.tok)
				prevRelevantCall = true
			}
		case "ret", "else", "case":
			out = append(out, n.tok)
			prevRelevantCall = false
		default:
			prevRelevantCall = false
		}
	}
	return out
}

func rpSkeleton(toks []rpTok) []rpTok {
	ns, _ := rpParse(toks, 0)
	return rpFilter(ns, true)
}

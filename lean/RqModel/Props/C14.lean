import RqModel.Model.Rewrite
namespace C14
open RqModel.Rewrite
theorem stub : True := trivial
end C14

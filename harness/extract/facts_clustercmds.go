package main

// ClusterCmds (C18, C35): cluster/service.go (*Service).handleConn translated,
// per `case proto.Command_COMMAND_TYPE_X` of the `switch c.Type`, into a small
// statement IR. The translation is purely syntactic and conservative: anything
// it does not recognise becomes `Stmt.unknown "<source>"`, which the Lean side
// treats as unsafe (the dependent theorems then fail instead of passing).
//
// The generated file also carries the (constant) declarations of the IR types,
// because generated files cannot import hand-written modules.

import (
	"fmt"
	"go/ast"
	"go/token"
	"strconv"
	"strings"
)

const clusterIRTypes = `
/-- conditions of `+"`if`"+` statements inside one command case of handleConn -/
inductive BExp where
  | payloadNil                     -- `+"`x == nil`"+` for the payload variable `+"`x := c.GetXRequest()`"+`
  | payloadField (f : String)      -- direct read of a payload field (dereferences the payload)
  | perm (p : String)              -- s.checkCommandPerm(c, p)
  | permAll (ps : List String)     -- s.checkCommandPermAll(c, ps…)
  | respErrSet                     -- resp.Error != ""
  | other (n : Nat)                -- any other condition (err != nil, …), numbered per case
  | not (a : BExp)
  | and (a b : BExp)
  | or (a b : BExp)
deriving DecidableEq, Repr

/-- statements of one command case -/
inductive Stmt where
  | skip
  | seq (a b : Stmt)
  | ite (c : BExp) (t e : Stmt)
  | setErr                          -- resp.Error = … (or a response literal with Error set)
  | action (name : String) (usesPayload toConn : Bool)  -- s.db.X / s.mgr.X / channel send
  | derefPayload                    -- read or write of a payload field outside a condition
  | writeResp                       -- marshalAndWrite(conn, resp) / writeBytesWithLength(conn, p)
  | closeConn
  | ret                             -- return (deferred conn.Close runs)
  | cont                            -- continue: next frame on the same connection
  | unknown (src : String)
deriving DecidableEq, Repr

structure Cmd where
  name : String
  body : Stmt
deriving Repr
`

type ccx struct {
	x       *X
	payload string // name of the payload variable of this case
	nOpaque int
}

func init() {
	register("ClusterCmds", func(x *X) {
		x.Raw(clusterIRTypes)
		fd := x.Func("cluster", "Service", "handleConn")
		var sw *ast.SwitchStmt
		if fd != nil {
			ast.Inspect(fd.Body, func(n ast.Node) bool {
				if s, ok := n.(*ast.SwitchStmt); ok && sw == nil && x.Src(s.Tag) == "c.Type" {
					sw = s
				}
				return true
			})
		}
		x.Comment("cluster/service.go (*Service).handleConn: one entry per case of `switch c.Type`, in source order")
		var items []string
		if sw != nil {
			for _, cl := range sw.Body.List {
				cc := cl.(*ast.CaseClause)
				for _, e := range cc.List {
					name := strings.TrimPrefix(x.Src(e), "proto.Command_COMMAND_TYPE_")
					c := &ccx{x: x}
					body := c.block(cc.Body)
					items = append(items, fmt.Sprintf("  { name := %s, body :=\n      %s }", LeanStr(name), body))
				}
			}
			x.DefBool("switchHasDefault", func() bool {
				for _, cl := range sw.Body.List {
					if len(cl.(*ast.CaseClause).List) == 0 {
						return true
					}
				}
				return false
			}())
		} else {
			x.DefBool("switchHasDefault", false)
		}
		x.DefBool("switchFound", sw != nil)
		x.Raw("def cmds : List Cmd := [\n" + strings.Join(items, ",\n") + "]")

		// all command types of the protocol (cluster/proto/message.pb.go Command_Type_name)
		var all []string
		if init := x.PkgValue("cluster/proto", "Command_Type_name"); init != nil {
			if cl, ok := init.(*ast.CompositeLit); ok {
				for _, el := range cl.Elts {
					if kv, ok := el.(*ast.KeyValueExpr); ok {
						if bl, ok := kv.Value.(*ast.BasicLit); ok && bl.Kind == token.STRING {
							s, _ := strconv.Unquote(bl.Value)
							all = append(all, strings.TrimPrefix(s, "COMMAND_TYPE_"))
						}
					}
				}
			}
		}
		x.Comment("cluster/proto/message.pb.go Command_Type_name values")
		x.DefStrings("protoCommandTypes", all)

		// C35: how handleConn obtains the frame payload buffer.
		// frameReader = source of the statement that creates the payload buffer `p`
		// before pb.Unmarshal(p, c); frameAllocIsClientSized = it is `make([]byte, sz)`
		// with sz read from the wire.
		x.Comment("cluster/service.go handleConn: creation of the buffer handed to pb.Unmarshal(p, c)")
		reader, clientSized, found := "", false, false
		if fd != nil {
			ast.Inspect(fd.Body, func(n ast.Node) bool {
				as, ok := n.(*ast.AssignStmt)
				if !ok || found || len(as.Lhs) == 0 || x.Src(as.Lhs[0]) != "p" || as.Tok != token.DEFINE {
					return true
				}
				reader = x.Src(as)
				found = true
				if c, ok := as.Rhs[0].(*ast.CallExpr); ok && calleeName(c) == "make" && len(c.Args) == 2 && x.Src(c.Args[1]) == "sz" {
					clientSized = true
				}
				return true
			})
		}
		x.DefString("frameReader", reader)
		x.DefOptBool("frameAllocIsClientSized", clientSized, found)
		v, ok := x.Const("cluster", &ast.Ident{Name: "protoBufferLengthSize"})
		x.DefOptInt("protoBufferLengthSize", v, ok)
	})
}

func seqOf(ss []string) string {
	var keep []string
	for _, s := range ss {
		if s != ".skip" {
			keep = append(keep, s)
		}
	}
	if len(keep) == 0 {
		return ".skip"
	}
	res := keep[len(keep)-1]
	for i := len(keep) - 2; i >= 0; i-- {
		res = "(.seq " + keep[i] + " " + res + ")"
	}
	return res
}

func (c *ccx) block(stmts []ast.Stmt) string {
	var out []string
	for _, s := range stmts {
		out = append(out, c.stmt(s))
	}
	return seqOf(out)
}

func (c *ccx) unknown(n ast.Node) string { return "(.unknown " + LeanStr(c.x.Src(n)) + ")" }

// mentionsPayload: the payload variable occurs anywhere in n
func (c *ccx) mentionsPayload(n ast.Node) bool {
	if c.payload == "" || n == nil {
		return false
	}
	found := false
	ast.Inspect(n, func(m ast.Node) bool {
		if id, ok := m.(*ast.Ident); ok && id.Name == c.payload {
			found = true
		}
		return true
	})
	return found
}

// derefsPayload: a field of the payload variable is selected directly (x.F, not x.GetF())
func (c *ccx) derefsPayload(n ast.Node) bool {
	if c.payload == "" || n == nil {
		return false
	}
	found := false
	var calls = map[ast.Expr]bool{}
	ast.Inspect(n, func(m ast.Node) bool {
		if ce, ok := m.(*ast.CallExpr); ok {
			calls[ce.Fun] = true
		}
		if se, ok := m.(*ast.SelectorExpr); ok {
			if id, ok := se.X.(*ast.Ident); ok && id.Name == c.payload {
				if !(calls[se] && strings.HasPrefix(se.Sel.Name, "Get")) { // protobuf getters are nil-safe
					found = true
				}
			}
		}
		return true
	})
	return found
}

var ccPure = map[string]bool{
	"stats.Add": true, "pb.Marshal": true, "gzCompress": true, "slices.Clone": true, "fmt.Sprintf": true,
	"err.Error": true, "buf.Bytes": true, "new": true, "s.GetNodeAPIURL": true, "s.GetVersion": true,
	"s.logger.Printf": true, "s.hwmMu.RLock": true, "s.hwmMu.RUnlock": true, "context.Background": true,
	"s.checkCommandPerm": true, "s.checkCommandPermAll": true, // only reached inside conditions
}

// calls translates every call inside n in evaluation (post-)order and returns the non-skip ones.
func (c *ccx) calls(n ast.Node) []string {
	var res []string
	var stack []ast.Node
	if n == nil {
		return nil
	}
	ast.Inspect(n, func(m ast.Node) bool {
		if m == nil {
			top := stack[len(stack)-1]
			stack = stack[:len(stack)-1]
			if ce, ok := top.(*ast.CallExpr); ok {
				res = append(res, c.call(ce))
			}
			return true
		}
		if fl, ok := m.(*ast.FuncLit); ok {
			res = append(res, c.unknown(fl))
			return false
		}
		stack = append(stack, m)
		return true
	})
	var keep []string
	for _, r := range res {
		if r != ".skip" {
			keep = append(keep, r)
		}
	}
	return keep
}

// call classifies one call expression (arguments are handled by the caller)
func (c *ccx) call(ce *ast.CallExpr) string {
	path := c.x.Src(ce.Fun)
	switch {
	case strings.HasPrefix(path, "s.db.") || strings.HasPrefix(path, "s.mgr."):
		uses, toConn := false, false
		for _, a := range ce.Args {
			if c.mentionsPayload(a) {
				uses = true
			}
			if c.x.Src(a) == "conn" {
				toConn = true
			}
		}
		return fmt.Sprintf("(.action %s %v %v)", LeanStr(strings.TrimPrefix(path, "s.")), uses, toConn)
	case path == "marshalAndWrite" || path == "writeBytesWithLength":
		if len(ce.Args) >= 1 && c.x.Src(ce.Args[0]) == "conn" {
			return ".writeResp"
		}
		return c.unknown(ce)
	case path == "conn.Close":
		return ".closeConn"
	case strings.HasPrefix(path, "c.Get") && len(ce.Args) == 0:
		return ".skip"
	case ccPure[path]:
		return ".skip"
	}
	return c.unknown(ce)
}

func (c *ccx) permName(e ast.Expr) string {
	if se, ok := e.(*ast.SelectorExpr); ok && c.x.Src(se.X) == "auth" {
		if init := c.x.PkgValue("auth", se.Sel.Name); init != nil {
			if bl, ok := init.(*ast.BasicLit); ok && bl.Kind == token.STRING {
				s, _ := strconv.Unquote(bl.Value)
				return s
			}
		}
	}
	if bl, ok := e.(*ast.BasicLit); ok && bl.Kind == token.STRING {
		s, _ := strconv.Unquote(bl.Value)
		return s
	}
	return "?" + c.x.Src(e)
}

func (c *ccx) cond(e ast.Expr) string {
	switch t := e.(type) {
	case *ast.ParenExpr:
		return c.cond(t.X)
	case *ast.UnaryExpr:
		if t.Op == token.NOT {
			return "(.not " + c.cond(t.X) + ")"
		}
	case *ast.BinaryExpr:
		switch t.Op {
		case token.LAND:
			return "(.and " + c.cond(t.X) + " " + c.cond(t.Y) + ")"
		case token.LOR:
			return "(.or " + c.cond(t.X) + " " + c.cond(t.Y) + ")"
		case token.EQL, token.NEQ:
			l, r := c.x.Src(t.X), c.x.Src(t.Y)
			var atom string
			if c.payload != "" && l == c.payload && r == "nil" {
				atom = ".payloadNil"
			} else if l == "resp.Error" && r == `""` {
				atom = "(.not .respErrSet)"
			}
			if atom != "" {
				if t.Op == token.NEQ {
					return "(.not " + atom + ")"
				}
				return atom
			}
		}
	case *ast.CallExpr:
		switch c.x.Src(t.Fun) {
		case "s.checkCommandPerm":
			if len(t.Args) == 2 && c.x.Src(t.Args[0]) == "c" {
				return "(.perm " + LeanStr(c.permName(t.Args[1])) + ")"
			}
		case "s.checkCommandPermAll":
			if len(t.Args) >= 2 && c.x.Src(t.Args[0]) == "c" {
				var ps []string
				for _, a := range t.Args[1:] {
					ps = append(ps, LeanStr(c.permName(a)))
				}
				return "(.permAll [" + strings.Join(ps, ", ") + "])"
			}
		}
	case *ast.SelectorExpr:
		if id, ok := t.X.(*ast.Ident); ok && id.Name == c.payload && c.payload != "" {
			return "(.payloadField " + LeanStr(t.Sel.Name) + ")"
		}
	}
	if c.mentionsPayload(e) {
		return "(.payloadField " + LeanStr(c.x.Src(e)) + ")"
	}
	// a condition that calls into the database / manager / connection is not a pure test
	for _, s := range c.calls(e) {
		if s != ".skip" {
			return "(.payloadField " + LeanStr("impure:"+c.x.Src(e)) + ")"
		}
	}
	n := c.nOpaque
	c.nOpaque++
	return fmt.Sprintf("(.other %d)", n)
}

// simple: a non-branching statement (expression, assignment, declaration)
func (c *ccx) simple(s ast.Stmt) string {
	var out []string
	switch t := s.(type) {
	case *ast.ExprStmt:
		if c.derefsPayload(t) && !c.isActionWithPayload(t.X) {
			out = append(out, ".derefPayload")
		}
		out = append(out, c.calls(t.X)...)
	case *ast.AssignStmt:
		// payload binding: x := c.GetXRequest()
		if len(t.Lhs) == 1 && len(t.Rhs) == 1 {
			if ce, ok := t.Rhs[0].(*ast.CallExpr); ok {
				p := c.x.Src(ce.Fun)
				if strings.HasPrefix(p, "c.Get") && strings.HasSuffix(p, "Request") && len(ce.Args) == 0 {
					if id, ok := t.Lhs[0].(*ast.Ident); ok {
						if c.payload != "" && c.payload != id.Name {
							return c.unknown(s)
						}
						c.payload = id.Name
						return ".skip"
					}
				}
			}
		}
		deref := false
		for _, l := range t.Lhs {
			if c.derefsPayload(l) {
				deref = true
			}
			if id, ok := l.(*ast.Ident); ok && c.payload != "" && id.Name == c.payload {
				return c.unknown(s) // payload variable reassigned
			}
		}
		for _, r := range t.Rhs {
			if c.derefsPayload(r) && !c.isActionWithPayload(r) {
				deref = true
			}
		}
		if deref {
			out = append(out, ".derefPayload")
		}
		for _, r := range t.Rhs {
			out = append(out, c.calls(r)...)
		}
		for _, l := range t.Lhs {
			if c.x.Src(l) == "resp.Error" {
				out = append(out, ".setErr")
			}
			if c.x.Src(l) == "resp" { // resp := &proto.T{Error: "..."}
				for _, r := range t.Rhs {
					ast.Inspect(r, func(m ast.Node) bool {
						if kv, ok := m.(*ast.KeyValueExpr); ok && c.x.Src(kv.Key) == "Error" {
							out = append(out, ".setErr")
						}
						return true
					})
				}
			}
		}
	case *ast.DeclStmt:
		return ".skip"
	case *ast.SendStmt:
		out = append(out, c.calls(t.Value)...)
		out = append(out, fmt.Sprintf("(.action %s %v false)", LeanStr("send:"+c.x.Src(t.Chan)), c.mentionsPayload(t.Value)))
	default:
		return c.unknown(s)
	}
	return seqOf(out)
}

// isActionWithPayload: e is a call of s.db.* / s.mgr.* (payload use is then recorded on the action)
func (c *ccx) isActionWithPayload(e ast.Expr) bool {
	ce, ok := e.(*ast.CallExpr)
	if !ok {
		return false
	}
	p := c.x.Src(ce.Fun)
	return strings.HasPrefix(p, "s.db.") || strings.HasPrefix(p, "s.mgr.")
}

func (c *ccx) stmt(s ast.Stmt) string {
	switch t := s.(type) {
	case *ast.BlockStmt:
		return c.block(t.List)
	case *ast.IfStmt:
		var parts []string
		if t.Init != nil {
			parts = append(parts, c.simple(t.Init))
		}
		cond := c.cond(t.Cond)
		th := c.block(t.Body.List)
		el := ".skip"
		if t.Else != nil {
			el = c.stmt(t.Else)
		}
		parts = append(parts, "(.ite "+cond+" "+th+" "+el+")")
		return seqOf(parts)
	case *ast.ReturnStmt:
		if len(t.Results) == 0 {
			return ".ret"
		}
		return c.unknown(s)
	case *ast.BranchStmt:
		if t.Tok == token.CONTINUE && t.Label == nil {
			return ".cont"
		}
		return c.unknown(s)
	case *ast.SelectStmt:
		// select { case ch <- v: A; default: B }  ==>  ite opaque (send; A) B
		res := ".skip"
		for i := len(t.Body.List) - 1; i >= 0; i-- {
			cl := t.Body.List[i].(*ast.CommClause)
			body := c.block(cl.Body)
			if cl.Comm == nil {
				res = body
				continue
			}
			n := c.nOpaque
			c.nOpaque++
			res = fmt.Sprintf("(.ite (.other %d) %s %s)", n, seqOf([]string{c.simple(cl.Comm), body}), res)
		}
		return res
	case *ast.ExprStmt, *ast.AssignStmt, *ast.DeclStmt, *ast.SendStmt:
		return c.simple(s)
	}
	return c.unknown(s)
}

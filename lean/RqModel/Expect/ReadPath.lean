/-
Hand-written expectations for the regenerated facts `RqModel.Gen.ReadPath` (token
lists extracted by harness/extract/facts_readpath.go from store/store.go on every
check run). Each list below was written by reading the function it describes; the
property files prove `Gen.ReadPath.<f> = Expect.ReadPath.<f>` by `decide`, so any
change to the guard / step order of these functions changes a proof obligation.
Derived views (`callsOf`, `retsOf`) are what the models refer to.
-/
namespace RqModel.Expect.ReadPath

/-- the calls, in evaluation order -/
def callsOf (l : List (String × String)) : List String :=
  l.filterMap (fun p => if p.1 = "call" then some p.2 else none)

/-- the returned (last) results, in source order -/
def retsOf (l : List (String × String)) : List String :=
  l.filterMap (fun p => if p.1 = "ret" then some p.2 else none)

/-- calls and returns only -/
def skeleton (l : List (String × String)) : List (String × String) :=
  l.filter (fun p => p.1 = "call" ∨ p.1 = "ret")

def waitLin : List (String × String) := [
  ("call", "s.strongReadTerm.Load"),
  ("if", "currReadTerm != s.strongReadTerm.Load()"),
  ("ret", "ErrStrongReadNeeded"),
  ("end", ""),
  ("call", "s.raft.State"),
  ("if", "s.raft.State() != raft.Leader"),
  ("ret", "ErrNotLeader"),
  ("end", ""),
  ("call", "s.Ready"),
  ("if", "!s.Ready()"),
  ("ret", "ErrNotReady"),
  ("end", ""),
  ("call", "s.raft.CommitIndex"),
  ("call", "s.VerifyLeader"),
  ("if", "err != nil"),
  ("ret", "err"),
  ("end", ""),
  ("call", "s.raft.CurrentTerm"),
  ("if", "s.raft.CurrentTerm() != currReadTerm"),
  ("ret", "ErrStaleRead"),
  ("end", ""),
  ("call", "s.fsmWaitIndex"),
  ("call", "s.fsmTarget.Subscribe"),
  ("select", ""),
  ("case", "<-ch"),
  ("ret", "nil"),
  ("case", "<-time.After(lt)"),
  ("ret", "fmt.Errorf(\"index %d: %w\", readIndex, ErrWaitForFSMTimeout)"),
  ("end", "")]

def fsmWaitIndex : List (String × String) := [
  ("call", "s.fsmIdx.Load"),
  ("for", "idx > fsmIdx"),
  ("call", "s.raftLog.GetLog"),
  ("if", "err != nil"),
  ("if", "err == raft.ErrLogNotFound"),
  ("ret", "fsmIdx"),
  ("end", ""),
  ("ret", "idx"),
  ("end", ""),
  ("if", "l.Type == raft.LogCommand"),
  ("ret", "idx"),
  ("end", ""),
  ("end", ""),
  ("ret", "idx")]

def execute : List (String × String) := [
  ("call", "s.throttler.Delay"),
  ("call", "p.Check"),
  ("if", "err != nil"),
  ("ret", "err"),
  ("end", ""),
  ("call", "s.open.Is"),
  ("if", "!s.open.Is()"),
  ("ret", "ErrNotOpen"),
  ("end", ""),
  ("call", "ctx.Err"),
  ("if", "err != nil"),
  ("ret", "err"),
  ("end", ""),
  ("call", "s.raft.State"),
  ("if", "s.raft.State() != raft.Leader"),
  ("ret", "ErrNotLeader"),
  ("end", ""),
  ("call", "s.Ready"),
  ("if", "!s.Ready()"),
  ("ret", "ErrNotReady"),
  ("end", ""),
  ("call", "s.execute"),
  ("ret", "s.execute(ex)")]

def fsmApply : List (String × String) := [
  ("defer", ""),
  ("call", "s.fsmIdx.Store"),
  ("call", "s.fsmTarget.Signal"),
  ("call", "s.fsmTerm.Store"),
  ("call", "s.fsmUpdateTime.Store"),
  ("call", "s.appendedAtTime.Store"),
  ("call", "time.Since"),
  ("call", "time.Since(startT).Microseconds"),
  ("end", ""),
  ("call", "s.firstLogAppliedT.IsZero"),
  ("if", "s.firstLogAppliedT.IsZero()"),
  ("call", "s.logger.Printf"),
  ("end", ""),
  ("if", "mutated"),
  ("call", "s.dbAppliedIdx.Store"),
  ("call", "s.appliedTarget.Signal"),
  ("end", ""),
  ("call", "s.numNoops.Add"),
  ("call", "s.snapshotStore.SetDueNext"),
  ("call", "s.logger.Fatalf"),
  ("call", "s.cdcRegistered.Unset"),
  ("ret", "r")]

end RqModel.Expect.ReadPath

/-
Helper lemmas for C04 over RqModel/Model/SnapSM.lean: the chain invariant and its preservation
(code level 3 = current source).
-/
import RqModel.Model.SnapSM
set_option linter.unusedSimpArgs false
set_option linter.unusedVariables false
namespace RqModel.SnapSM

/-- `ChainInv s`:
* restoring the newest snapshot and replaying the log after it gives the applied database;
* unless a full snapshot is due anyway (flag, or the modification-time guard), the staged WAL
  segments are exactly the changes between the restored newest snapshot and the database file;
* a captured-but-not-yet-persisted snapshot will, when installed, again satisfy both. -/
structure ChainInv (s : SM) : Prop where
  restore : replay (resolve s.snaps) s.tail = some s.db
  resolves : (resolve s.snaps).isSome
  staged : s.fullNeeded = false → s.modified = false → s.snaps ≠ [] →
    s.staged.foldl applySeg (resolve s.snaps) = some s.file
  pendFull : ∀ c n cm g, s.pend = some (.full c n cm g) →
    s.fullNeeded = true ∧ n ≤ s.tail.length ∧ replay (some c) (s.tail.drop n) = some s.db ∧
    s.staged = [] ∧ (s.modified = false → s.file = c)
  pendInc : ∀ n cm, s.pend = some (.inc n cm) →
    n ≤ s.tail.length ∧ s.snaps ≠ [] ∧
    replay (s.staged.foldl applySeg (resolve s.snaps)) (s.tail.drop n) = some s.db ∧
    (s.fullNeeded = false → s.modified = false ∧ s.staged.foldl applySeg (resolve s.snaps) = some s.file)
  /-- while a superseded local snapshot is pending the newest snapshot is a full one (the installed one) -/
  pendStale : ∀ c, s.pend = some (.stale c) → ∃ l a, s.snaps = l ++ [.full a]

def resolveStep (acc : Option C) (x : Snap) : Option C :=
  match x with
  | .full c => some c
  | .inc segs => segs.foldl applySeg acc

theorem resolve_snoc (l : List Snap) (x : Snap) : resolve (l ++ [x]) = resolveStep (resolve l) x := by
  unfold resolve
  rw [List.foldl_append]
  rfl

theorem replay_snoc (d : Option C) (es : List Entry) (e : Entry) : replay d (es ++ [e]) = applyEntry (replay d es) e := by
  unfold replay
  rw [List.foldl_append]
  rfl

theorem foldl_applySeg_snoc (d : Option C) (l : List Seg) (g : Seg) :
    (l ++ [g]).foldl applySeg d = applySeg (l.foldl applySeg d) g := by
  rw [List.foldl_append]; rfl

theorem drop_snoc {α} (l : List α) (a : α) (n : Nat) (h : n ≤ l.length) : (l ++ [a]).drop n = l.drop n ++ [a] := by
  rw [List.drop_append_of_le_length h]

theorem fileAfter_noLoad (r : C) (es : List Entry) (h : hasLoad es = false) : fileAfter r es = r := by
  induction es generalizing r with
  | nil => rfl
  | cons e es ih =>
    cases e with
    | write w =>
      simp only [hasLoad, List.any_cons, Bool.false_or] at h
      simp only [fileAfter, List.foldl_cons]
      exact ih r h
    | load c => simp [hasLoad] at h

theorem chainInv_init : ChainInv {} :=
  ⟨rfl, rfl, fun _ _ h => absurd rfl h, (fun _ _ _ _ h => by cases h), (fun _ _ h => by cases h), (fun _ h => by cases h)⟩

theorem resolve_insertBelow (l : List Snap) (a : C) (x : Snap) :
    resolve (insertBelowNewest (l ++ [.full a]) x) = resolve (l ++ [.full a]) := by
  simp only [insertBelowNewest, List.dropLast_concat, List.getLast?_concat, Option.toList]
  have : l ++ x :: [Snap.full a] = (l ++ [x]) ++ [Snap.full a] := by simp
  rw [this, resolve_snoc, resolve_snoc l (.full a)]
  rfl

theorem resolve_full_last (l : List Snap) (a : C) : resolve (l ++ [.full a]) = some a := by
  rw [resolve_snoc]; rfl

/-- a full snapshot of the current database just installed, nothing staged, nothing pending -/
theorem chainInv_full_installed (s : SM) (c : C) (fn md : Bool) (cmds ap) (gn : Nat) (pd : Option Pend)
    (hpd : pd = none ∨ ∃ x, pd = some (.stale x)) :
    ChainInv { s with db := c, file := c, staged := [], snaps := s.snaps ++ [.full c], fullNeeded := fn, gen := gn, modified := md, pend := pd, tail := [], cmds := cmds, applied := ap } where
  restore := by simp [resolve_snoc, resolveStep, replay]
  resolves := by simp [resolve_snoc, resolveStep]
  staged _ _ _ := by simp [resolve_snoc, resolveStep]
  pendFull _ _ _ _ h := by rcases hpd with rfl | ⟨x, rfl⟩ <;> cases h
  pendInc _ _ h := by rcases hpd with rfl | ⟨x, rfl⟩ <;> cases h
  pendStale _ _ := ⟨s.snaps, c, rfl⟩

/-- an applied entry -/
theorem apply_inv (s : SM) (h : ChainInv s) (e : Entry) (d' : C) (f' : C) (fn md : Bool) (cm ap) (gn : Nat)
    (hd : applyEntry (some s.db) e = some d')
    (hkeep : (fn = s.fullNeeded ∧ md = s.modified ∧ f' = s.file) ∨ (fn = true ∧ md = true)) :
    ChainInv { s with db := d', file := f', fullNeeded := fn, gen := gn, modified := md, tail := s.tail ++ [e], cmds := cm, applied := ap } := by
  have hrep : ∀ (x : Option C) (n : Nat), n ≤ s.tail.length → replay x (s.tail.drop n) = some s.db →
      replay x ((s.tail ++ [e]).drop n) = some d' := by
    intro x n hn hx
    rw [drop_snoc _ _ _ hn, replay_snoc, hx, hd]
  refine ⟨?_, h.resolves, ?_, ?_, ?_, h.pendStale⟩
  · simp only [replay_snoc, h.restore, hd]
  · intro hf hm hne
    rcases hkeep with ⟨h1, h2, h3⟩ | ⟨h1, _⟩
    · simp only at hf hm hne ⊢
      rw [h3]; exact h.staged (h1 ▸ hf) (h2 ▸ hm) hne
    · simp only at hf; rw [h1] at hf; cases hf
  · intro c n cm' g hp
    obtain ⟨a1, a2, a3, a4, a5⟩ := h.pendFull c n cm' g hp
    refine ⟨?_, by simp only [List.length_append]; omega, hrep _ n a2 a3, a4, ?_⟩
    · rcases hkeep with ⟨h1, _, _⟩ | ⟨h1, _⟩
      · simp only; rw [h1]; exact a1
      · exact h1
    · intro hm
      rcases hkeep with ⟨_, h2, h3⟩ | ⟨_, h2⟩
      · simp only at hm ⊢; rw [h3]; exact a5 (h2 ▸ hm)
      · simp only at hm; rw [h2] at hm; cases hm
  · intro n cm' hp
    obtain ⟨a1, a2, a3, a4⟩ := h.pendInc n cm' hp
    refine ⟨by simp only [List.length_append]; omega, a2, hrep _ n a1 a3, ?_⟩
    intro hf
    rcases hkeep with ⟨h1, h2, h3⟩ | ⟨h1, _⟩
    · simp only at hf ⊢
      obtain ⟨b1, b2⟩ := a4 (h1 ▸ hf)
      exact ⟨h2 ▸ b1, h3 ▸ b2⟩
    · simp only at hf; rw [h1] at hf; cases hf

theorem snapBegin_inv (s : SM) (h : ChainInv s) : ChainInv (snapBegin 3 s).1 := by
  unfold snapBegin
  split
  · exact h
  · rename_i hp
    have hpn : s.pend = none := by
      cases hs : s.pend with
      | none => rfl
      | some p => simp [hs] at hp
    split
    · -- full
      have h32 : (3 : Nat) ≥ 2 := by decide
      simp only [h32, if_true]
      refine ⟨h.restore, h.resolves, (fun hf => by cases hf), ?_, (fun _ _ hp' => by cases hp'), (fun _ hp' => by cases hp')⟩
      intro c n cm g hp'
      simp only [Option.some.injEq, Pend.full.injEq] at hp'
      obtain ⟨rfl, rfl, rfl, rfl⟩ := hp'
      exact ⟨rfl, Nat.le_refl _, by simp [replay], rfl, fun _ => rfl⟩
    · rename_i hdue
      have hdue' : s.fullNeeded = false ∧ s.snaps ≠ [] ∧ s.modified = false := by
        unfold fullDue at hdue
        simp only [Bool.or_eq_true, not_or, Bool.not_eq_true] at hdue
        exact ⟨hdue.1.1, by simpa using hdue.1.2, hdue.2⟩
      have hst := h.staged hdue'.1 hdue'.2.2 hdue'.2.1
      split
      · exact h
      · have hnew : (s.staged ++ [(⟨s.file, s.db⟩ : Seg)]).foldl applySeg (resolve s.snaps) = some s.db := by
          rw [foldl_applySeg_snoc, hst]; simp [applySeg]
        refine ⟨h.restore, h.resolves, fun _ _ _ => hnew, (fun _ _ _ _ hp' => by cases hp'), ?_, (fun _ hp' => by cases hp')⟩
        intro n cm hp'
        simp only [Option.some.injEq, Pend.inc.injEq] at hp'
        obtain ⟨rfl, rfl⟩ := hp'
        exact ⟨Nat.le_refl _, hdue'.2.1, by simp [hnew, replay], fun _ => ⟨hdue'.2.2, hnew⟩⟩

theorem restart_inv (s : SM) (h : ChainInv s) : ChainInv (restartSM s).1 := by
  unfold restartSM
  cases hr : resolve s.snaps with
  | none => have := h.resolves; rw [hr] at this; cases this
  | some r =>
    have hre := h.restore
    rw [hr] at hre
    simp only [hre]
    refine ⟨by simpa [hr] using hre, by simp [hr], ?_, (fun _ _ _ _ hp' => by cases hp'), (fun _ _ hp' => by cases hp'),
      (fun _ hp' => by cases hp')⟩
    intro hf _ _
    simp only [Bool.or_eq_false_iff] at hf
    simp [hr, fileAfter_noLoad r s.tail hf.2]

theorem snapEnd_inv (s : SM) (h : ChainInv s) (o : Outcome) : ChainInv (snapEnd 3 s o).1 := by
  unfold snapEnd
  cases hp : s.pend with
  | none => exact h
  | some p =>
    cases p with
    | full c n cm g =>
      obtain ⟨a1, a2, a3, a4, a5⟩ := h.pendFull c n cm g hp
      have keep : ChainInv { s with pend := none } :=
        ⟨h.restore, h.resolves, (fun hf => by simp only at hf; rw [a1] at hf; cases hf),
          (fun _ _ _ _ hp' => by cases hp'), (fun _ _ hp' => by cases hp'), (fun _ hp' => by cases hp')⟩
      cases o with
      | ok =>
        have h33 : (3 : Nat) ≥ 3 := by decide
        simp only [h33, if_true]
        refine ⟨?_, ?_, ?_, (fun _ _ _ _ hp' => by cases hp'), (fun _ _ hp' => by cases hp'), (fun _ hp' => by cases hp')⟩
        · simp [resolve_snoc, resolveStep, a3]
        · simp [resolve_snoc, resolveStep]
        · intro hf hm _
          simp only at hm hf ⊢
          simp [resolve_snoc, resolveStep, a4, a5 hm]
      | notInvoked => exact keep
      | failBefore => exact keep
      | failAfter => exact keep
    | inc n cm =>
      obtain ⟨a1, a2, a3, a4⟩ := h.pendInc n cm hp
      have keep : ChainInv { s with pend := none } :=
        ⟨h.restore, h.resolves, h.staged, (fun _ _ _ _ hp' => by cases hp'), (fun _ _ hp' => by cases hp'),
          (fun _ hp' => by cases hp')⟩
      cases o with
      | ok =>
        simp only
        split
        · exact keep
        · rename_i hfn
          have hf : s.fullNeeded = false := by simpa using hfn
          obtain ⟨b1, b2⟩ := a4 hf
          refine ⟨?_, ?_, ?_, (fun _ _ _ _ hp' => by cases hp'), (fun _ _ hp' => by cases hp'), (fun _ hp' => by cases hp')⟩
          · simp [resolve_snoc, resolveStep, a3]
          · simp [resolve_snoc, resolveStep, b2]
          · intro _ _ _
            simp [resolve_snoc, resolveStep, b2]
      | notInvoked => exact keep
      | failBefore => exact keep
      | failAfter =>
        simp only
        have := restart_inv _ keep
        cases hrs : restartSM { s with pend := none } with
        | mk s' r => rw [hrs] at this; exact this
    | stale c =>
      have keep : ChainInv { s with pend := none } :=
        ⟨h.restore, h.resolves, h.staged, (fun _ _ _ _ hp' => by cases hp'), (fun _ _ hp' => by cases hp'),
          (fun _ hp' => by cases hp')⟩
      have raise : ChainInv { s with fullNeeded := true, gen := s.gen + 1, pend := none } :=
        ⟨h.restore, h.resolves, (fun hf => by cases hf), (fun _ _ _ _ hp' => by cases hp'), (fun _ _ hp' => by cases hp'),
          (fun _ hp' => by cases hp')⟩
      obtain ⟨l, a, hl⟩ := h.pendStale c hp
      cases c with
      | none =>
        cases o with
        | ok =>
          simp only
          have := restart_inv _ keep
          cases hrs : restartSM { s with pend := none } with
          | mk s' r => rw [hrs] at this; exact this
        | notInvoked => exact keep
        | failBefore => exact raise
        | failAfter => exact raise
      | some a' =>
        cases o with
        | ok =>
          simp only
          have hres : resolve (insertBelowNewest s.snaps (.full a')) = resolve s.snaps := by
            rw [hl]; exact resolve_insertBelow l a _
          refine ⟨by simp only [hres]; exact h.restore, by simp only [hres]; exact h.resolves, ?_,
            (fun _ _ _ _ hp' => by cases hp'), (fun _ _ hp' => by cases hp'), (fun _ hp' => by cases hp')⟩
          intro hf hm _
          simp only [hres]
          exact h.staged hf hm (by rw [hl]; simp)
        | notInvoked => exact keep
        | failBefore => exact raise
        | failAfter => exact raise

theorem snapBeginStageFails_inv (s : SM) (h : ChainInv s) : ChainInv (snapBeginStageFails 3 s).1 := by
  unfold snapBeginStageFails
  split
  · exact h
  · split
    · exact snapBegin_inv s h
    · split
      · exact h
      · rename_i hp _ _
        have hpn : s.pend = none := by
          cases hs : s.pend with
          | none => rfl
          | some p => simp [hs] at hp
        have h33 : (3 : Nat) ≥ 3 := by decide
        simp only [h33, if_true]
        exact ⟨h.restore, h.resolves, (fun hf => by cases hf), (fun _ _ _ _ hp' => by simp only [hpn] at hp'; cases hp'),
          (fun _ _ hp' => by simp only [hpn] at hp'; cases hp'), (fun _ hp' => by simp only [hpn] at hp'; cases hp')⟩

theorem snapshot_inv (s : SM) (h : ChainInv s) (o : Outcome) : ChainInv (snapshot 3 s o).1 := by
  unfold snapshot
  split
  · exact h
  · have hb := snapBegin_inv s h
    cases hsb : snapBegin 3 s with
    | mk s1 k =>
      rw [hsb] at hb
      simp only
      split
      · have he := snapEnd_inv s1 hb o
        cases hse : snapEnd 3 s1 o with
        | mk s2 r => rw [hse] at he; exact he
      · exact hb

theorem step_inv (s : SM) (h : ChainInv s) (op : Op) : ChainInv (step 3 s op).1 := by
  cases op with
  | write w =>
    simp only [step]
    exact apply_inv s h (.write w) _ s.file s.fullNeeded s.modified _ _ s.gen rfl (Or.inl ⟨rfl, rfl, rfl⟩)
  | noop =>
    simp only [step]
    exact ⟨h.restore, h.resolves, h.staged, h.pendFull, h.pendInc, h.pendStale⟩
  | snapBegin => exact snapBegin_inv s h
  | snapBeginStageFails => exact snapBeginStageFails_inv s h
  | snapEnd o => exact snapEnd_inv s h o
  | snapshot o => exact snapshot_inv s h o
  | load c =>
    simp only [step]
    exact apply_inv s h (.load c) c c true true _ _ (s.gen + 1) rfl (Or.inr ⟨rfl, rfl⟩)
  | boot c =>
    simp only [step]
    split
    · exact h
    · rename_i hp
      have hpn : s.pend = none := by
        cases hs : s.pend with
        | none => rfl
        | some p => simp [hs] at hp
      -- swap, flag, then a full snapshot captured and installed at once
      have hs : (snapshot 3 { s with db := c, file := c, fullNeeded := true, gen := s.gen + 1, modified := true, cmds := s.cmds + 1, applied := true } .ok).1
          = { s with db := c, file := c, staged := [], snaps := s.snaps ++ [.full c], fullNeeded := false, gen := s.gen + 1 + 1, modified := false, pend := none, tail := s.tail.drop s.tail.length, cmds := s.cmds + 1 - (s.cmds + 1), applied := true } := by
        simp [snapshot, snapBegin, snapEnd, fullDue, hpn]
      rw [hs]
      have := chainInv_full_installed s c false false (s.cmds + 1 - (s.cmds + 1)) true (s.gen + 1 + 1) none (Or.inl rfl)
      simpa using this
  | install c =>
    have h30 : ¬ ((3 : Nat) = 0) := by decide
    have h31 : (3 : Nat) ≥ 1 := by decide
    simp only [step, h30, decide_false, Bool.false_and, Bool.false_eq_true, if_false, h31, if_true]
    have key : ∀ pd : Option Pend, (pd = none ∨ ∃ x, pd = some (.stale x)) →
        ChainInv { s with snaps := s.snaps ++ [.full c], fullNeeded := false, db := c, file := c, modified := false,
                          tail := [], cmds := 0, pend := pd, staged := [] } := by
      intro pd hpd
      have := chainInv_full_installed s c false false 0 s.applied s.gen pd hpd
      exact this
    cases hp : s.pend with
    | none => exact key none (Or.inl rfl)
    | some p =>
      cases p with
      | full a n cm g => exact key _ (Or.inr ⟨_, rfl⟩)
      | inc n cm => exact key _ (Or.inr ⟨_, rfl⟩)
      | stale x => exact key _ (Or.inr ⟨_, rfl⟩)
  | installCrash c =>
    have hres : resolve (s.snaps ++ [Snap.full c]) = some c := resolve_full_last _ _
    simp only [step, restartSM, hres, replay, List.foldl_nil, fileAfter, hasLoad, List.any_nil, Bool.or_false]
    have := chainInv_full_installed s c false false 0 true (s.gen + 1) none (Or.inl rfl)
    simpa using this
  | reap =>
    simp only [step]
    cases hr : resolve s.snaps with
    | none => exact h
    | some c =>
      simp only
      split
      · rename_i hlen
        have hne : s.snaps ≠ [] := by
          intro e
          have : s.snaps.length = 0 := by rw [e]; rfl
          omega
        have hres : resolve [Snap.full c] = some c := by simp [resolve]
        refine ⟨?_, ?_, ?_, ?_, ?_, (fun _ _ => ⟨[], c, rfl⟩)⟩
        · have := h.restore; rw [hr] at this; simpa [hres] using this
        · simp [hres]
        · intro hf hm _
          have := h.staged hf hm hne
          rw [hr] at this
          simpa [hres] using this
        · exact h.pendFull
        · intro n cm hp
          obtain ⟨a1, a2, a3, a4⟩ := h.pendInc n cm hp
          rw [hr] at a3 a4
          exact ⟨a1, by simp, by simpa [hres] using a3, by simpa [hres] using a4⟩
      · exact h
  | restart => exact restart_inv s h

theorem run_inv (ops : List Op) : ∀ (s : SM), ChainInv s → ChainInv (run 3 s ops) := by
  induction ops with
  | nil => intro s h; exact h
  | cons o os ih => intro s h; exact ih _ (step_inv s h o)

/-! ### the modification-time guard is implied by the flag (requirement tokens) -/

/-- with the requirement tokens the modification-time guard is implied by the flag: whenever the
database file changed after the recorded time, FULL_NEEDED is set; and a captured full snapshot
whose database has since been replaced carries an outdated token -/
structure GuardInv (s : SM) : Prop where
  flag : s.modified = true → s.fullNeeded = true
  tok : ∀ c n cm g, s.pend = some (.full c n cm g) → g ≤ s.gen ∧ (s.modified = true → g < s.gen)

theorem guardInv_init : GuardInv {} := ⟨(fun h => by cases h), (fun _ _ _ _ h => by cases h)⟩

theorem guard_restart (s : SM) (h : GuardInv s) : GuardInv (restartSM s).1 := by
  unfold restartSM
  split
  · exact ⟨(fun hm => by cases hm), (fun _ _ _ _ hp => by cases hp)⟩
  · exact h

theorem guard_snapBegin (s : SM) (h : GuardInv s) : GuardInv (snapBegin 3 s).1 := by
  unfold snapBegin
  split
  · exact h
  · split
    · have h32 : (3 : Nat) ≥ 2 := by decide
      simp only [h32, if_true]
      refine ⟨(fun hm => by cases hm), ?_⟩
      intro c n cm g hp
      simp only [Option.some.injEq, Pend.full.injEq] at hp
      obtain ⟨_, _, _, rfl⟩ := hp
      exact ⟨Nat.le_refl _, (fun hm => by cases hm)⟩
    · split
      · exact h
      · exact ⟨h.flag, fun _ _ _ _ hp => by cases hp⟩

theorem guard_snapEnd (s : SM) (h : GuardInv s) (o : Outcome) : GuardInv (snapEnd 3 s o).1 := by
  have none' : ∀ t : SM, t.pend = none → (t.modified = true → t.fullNeeded = true) → GuardInv t :=
    fun t hp hf => ⟨hf, fun _ _ _ _ hp' => by rw [hp] at hp'; cases hp'⟩
  unfold snapEnd
  cases hp : s.pend with
  | none => exact h
  | some p =>
    cases p with
    | full c n cm g =>
      obtain ⟨hle, hlt⟩ := h.tok c n cm g hp
      cases o with
      | ok =>
        have h33 : (3 : Nat) ≥ 3 := by decide
        simp only [h33, if_true]
        refine none' _ rfl ?_
        intro hm
        have hm' : s.modified = true := hm
        have := hlt hm'
        have hne : ¬ s.gen = g := by omega
        simp only [hne, if_false]
        exact h.flag hm'
      | notInvoked => exact none' _ rfl h.flag
      | failBefore => exact none' _ rfl h.flag
      | failAfter => exact none' _ rfl h.flag
    | inc n cm =>
      cases o with
      | ok =>
        simp only
        split
        · exact none' _ rfl h.flag
        · exact none' _ rfl h.flag
      | notInvoked => exact none' _ rfl h.flag
      | failBefore => exact none' _ rfl h.flag
      | failAfter =>
        simp only
        have := guard_restart { s with pend := none } (none' _ rfl h.flag)
        cases hrs : restartSM { s with pend := none } with
        | mk s' r => rw [hrs] at this; exact this
    | stale c =>
      cases c with
      | none =>
        cases o with
        | ok =>
          simp only
          have := guard_restart { s with pend := none } (none' _ rfl h.flag)
          cases hrs : restartSM { s with pend := none } with
          | mk s' r => rw [hrs] at this; exact this
        | notInvoked => exact none' _ rfl h.flag
        | failBefore => exact none' _ rfl (fun _ => rfl)
        | failAfter => exact none' _ rfl (fun _ => rfl)
      | some a =>
        cases o with
        | ok => exact none' _ rfl h.flag
        | notInvoked => exact none' _ rfl h.flag
        | failBefore => exact none' _ rfl (fun _ => rfl)
        | failAfter => exact none' _ rfl (fun _ => rfl)

theorem guard_snapshot (s : SM) (h : GuardInv s) (o : Outcome) : GuardInv (snapshot 3 s o).1 := by
  unfold snapshot
  split
  · exact h
  · have hb := guard_snapBegin s h
    cases hsb : snapBegin 3 s with
    | mk s1 k =>
      rw [hsb] at hb
      simp only
      split
      · have he := guard_snapEnd s1 hb o
        cases hse : snapEnd 3 s1 o with
        | mk s2 r => rw [hse] at he; exact he
      · exact hb

theorem guard_step (s : SM) (h : GuardInv s) (op : Op) : GuardInv (step 3 s op).1 := by
  cases op with
  | write w => exact ⟨h.flag, h.tok⟩
  | noop => exact ⟨h.flag, h.tok⟩
  | snapBegin => exact guard_snapBegin s h
  | snapBeginStageFails =>
    simp only [step]
    unfold snapBeginStageFails
    split
    · exact h
    · split
      · exact guard_snapBegin s h
      · split
        · exact h
        · rename_i hp _ _
          have hpn : s.pend = none := by
            cases hs : s.pend with
            | none => rfl
            | some p => simp [hs] at hp
          have h33 : (3 : Nat) ≥ 3 := by decide
          simp only [h33, if_true]
          exact ⟨fun _ => rfl, fun _ _ _ _ hp' => by simp only [hpn] at hp'; cases hp'⟩
  | snapEnd o => exact guard_snapEnd s h o
  | snapshot o => exact guard_snapshot s h o
  | load c =>
    simp only [step]
    refine ⟨fun _ => rfl, ?_⟩
    intro c' n cm g hp
    obtain ⟨hle, _⟩ := h.tok c' n cm g hp
    exact ⟨by simp only; omega, fun _ => by simp only; omega⟩
  | boot c =>
    simp only [step]
    split
    · exact h
    · rename_i hp
      have hpn : s.pend = none := by
        cases hs : s.pend with
        | none => rfl
        | some p => simp [hs] at hp
      have : GuardInv { s with db := c, file := c, fullNeeded := true, gen := s.gen + 1, modified := true, cmds := s.cmds + 1, applied := true } :=
        ⟨fun _ => rfl, fun _ _ _ _ hp' => by simp only [hpn] at hp'; cases hp'⟩
      exact guard_snapshot _ this .ok
  | install c =>
    have h30 : ¬ ((3 : Nat) = 0) := by decide
    have h31 : (3 : Nat) ≥ 1 := by decide
    simp only [step, h30, decide_false, Bool.false_and, Bool.false_eq_true, if_false, h31, if_true]
    refine ⟨(fun hm => by cases hm), ?_⟩
    intro c' n cm g hp
    cases hs : s.pend with
    | none => simp only [hs] at hp; cases hp
    | some p => cases p <;> simp only [hs] at hp <;> cases hp
  | reap =>
    simp only [step]
    cases resolve s.snaps with
    | none => exact h
    | some c => simp only; split <;> exact ⟨h.flag, h.tok⟩
  | installCrash c =>
    have hres : resolve (s.snaps ++ [Snap.full c]) = some c := resolve_full_last _ _
    simp only [step, restartSM, hres, replay, List.foldl_nil, fileAfter, hasLoad, List.any_nil, Bool.or_false]
    exact ⟨(fun hm => by cases hm), (fun _ _ _ _ hp => by cases hp)⟩
  | restart => exact guard_restart s h

theorem guard_run (ops : List Op) : ∀ (s : SM), GuardInv s → GuardInv (run 3 s ops) := by
  induction ops with
  | nil => intro s h; exact h
  | cons o os ih => intro s h; exact ih _ (guard_step s h o)


end RqModel.SnapSM

package system

// C20 (live cluster): every request kind that needs the leader is sent through the
// HTTP API of EVERY node of a real cluster (2 nodes in the quick tier, 3 nodes with
// leader stepdowns between rounds in the thorough tier), with and without the
// `redirect` parameter. Checked on the real system:
//   * via a follower without `redirect`: 200, X-RQLITE-SERVED-BY names the leader's
//     Raft address, and the answer is what the leader gives for the same request
//     (strong reads compared verbatim with the leader's own answer; writes: the
//     last_insert_id returned is the id of the row on the leader);
//   * with `redirect` on a follower: 301 to leader-API + path + query, and nothing
//     was executed anywhere;
//   * every acknowledged write exists exactly once on the leader and, after the
//     followers caught up, exactly once on every follower (a follower that executed
//     against its own database would hold the row twice, or hold it alone);
//   * the model `proxy` predicts forwarded / served locally / redirect for each case.

import (
	"encoding/json"
	"fmt"
	"io"
	"net/http"
	"net/url"
	"strings"
	"testing"
	"time"
)

type c20Resp struct {
	status   int
	location string
	servedBy string
	body     string
}

var c20Client = &http.Client{Timeout: 30 * time.Second, CheckRedirect: func(req *http.Request, via []*http.Request) error { return http.ErrUseLastResponse }}

func c20Do(method, u, body string) (c20Resp, error) {
	req, err := http.NewRequest(method, u, strings.NewReader(body))
	if err != nil {
		return c20Resp{}, err
	}
	if body != "" {
		req.Header.Set("Content-Type", "application/json")
	}
	resp, err := c20Client.Do(req)
	if err != nil {
		return c20Resp{}, err
	}
	defer resp.Body.Close()
	b, _ := io.ReadAll(resp.Body)
	return c20Resp{resp.StatusCode, resp.Header.Get("Location"), resp.Header.Get("X-RQLITE-SERVED-BY"), string(b)}, nil
}

type c20Result struct {
	Results []struct {
		LastInsertID int64           `json:"last_insert_id"`
		RowsAffected int64           `json:"rows_affected"`
		Values       [][]interface{} `json:"values"`
		Error        string          `json:"error"`
	} `json:"results"`
	RaftIndex uint64 `json:"raft_index"`
	Error     string `json:"error"`
}

func c20Parse(body string) (c20Result, bool) {
	var r c20Result
	if json.Unmarshal([]byte(body), &r) != nil {
		return r, false
	}
	return r, true
}

// rows with the tag on a node, read at the given level
func c20Rows(n *Node, tag, level string) ([]int64, error) {
	q := url.QueryEscape(fmt.Sprintf("SELECT id FROM c20 WHERE tag='%s' ORDER BY id", tag))
	r, err := c20Do("GET", "http://"+n.APIAddr+"/db/query?level="+level+"&q="+q, "")
	if err != nil {
		return nil, err
	}
	p, ok := c20Parse(r.body)
	if !ok || len(p.Results) != 1 || p.Results[0].Error != "" {
		return nil, fmt.Errorf("query on %s: %d %s", n.ID, r.status, r.body)
	}
	var ids []int64
	for _, v := range p.Results[0].Values {
		if f, ok := v[0].(float64); ok {
			ids = append(ids, int64(f))
		}
	}
	return ids, nil
}

func TestVerifC20Cluster(t *testing.T) {
	rep := vfNewReport("C20", "live cluster: request kind (execute, unified write, strong query, weak query, strong unified read) x node (every node of a 2-node cluster; thorough: 3 nodes, with a leader stepdown between rounds) x redirect parameter, through the real HTTP API; non-trivial when the node addressed is a follower; distinct by (round, node role, kind, redirect)")
	defer rep.Write()

	n1 := mustNewLeaderNode("c20n1")
	defer n1.Deprovision()
	cluster := Cluster{n1}
	for i := 2; i <= vfScale(2, 3); i++ {
		n := mustNewNode(fmt.Sprintf("c20n%d", i), false)
		defer n.Deprovision()
		ldr, err := cluster.Leader()
		if err != nil {
			t.Fatalf("no leader: %v", err)
		}
		if err := n.Join(ldr); err != nil {
			t.Fatalf("join: %v", err)
		}
		if _, err := n.WaitForLeader(); err != nil {
			t.Fatalf("wait for leader: %v", err)
		}
		cluster = append(cluster, n)
	}
	leader, err := cluster.Leader()
	if err != nil {
		t.Fatalf("no leader: %v", err)
	}
	if _, err := leader.Execute(`CREATE TABLE c20 (id INTEGER NOT NULL PRIMARY KEY, tag TEXT)`); err != nil {
		t.Fatalf("create table: %v", err)
	}

	type ack struct{ tag string }
	var acked []ack
	var ops, impl []string
	rounds := vfScale(1, 12)
	seq := 0
	for round := 0; round < rounds; round++ {
		if round > 0 && round%2 == 0 {
			// move leadership, then carry on with whoever leads now
			old := leader
			if err := old.Stepdown(true); err != nil {
				rep.Note("round %d: stepdown failed: %v", round, err)
			}
			nl, err := cluster.WaitForNewLeader(old)
			if err != nil {
				rep.Note("round %d: no new leader after stepdown: %v", round, err)
				nl, err = cluster.Leader()
				if err != nil {
					t.Fatalf("cluster lost its leader: %v", err)
				}
			}
			leader = nl
			rep.Count("stepdowns")
		} else if round > 0 {
			// move leadership WHILE the requests of this round are being sent
			old := leader
			go func() {
				time.Sleep(150 * time.Millisecond)
				old.Stepdown(false)
			}()
			rep.Count("stepdowns-during-requests")
		}
		for _, node := range cluster {
			for _, kind := range []string{"execute", "request-write", "query-strong", "query-weak", "request-strong-read"} {
				for _, redirect := range []bool{false, true} {
					var ldr *Node
					if !trueOrTimeout(func() bool { l, err := cluster.Leader(); ldr = l; return err == nil }, 30*time.Second) {
						t.Fatalf("cluster has no leader")
					}
					leader = ldr
					isFollower := node.ID != leader.ID
					seq++
					tag := fmt.Sprintf("r%d-%s-%s-%v-%d", round, node.ID, kind, redirect, seq)
					path, query, method, body := "", "raft_index", "POST", ""
					switch kind {
					case "execute":
						path, body = "/db/execute", fmt.Sprintf(`["INSERT INTO c20(tag) VALUES('%s')"]`, tag)
					case "request-write":
						path, body = "/db/request", fmt.Sprintf(`["INSERT INTO c20(tag) VALUES('%s')"]`, tag)
					case "query-strong":
						path, method, query = "/db/query", "GET", "raft_index&level=strong&q="+url.QueryEscape("SELECT COUNT(*), MAX(id) FROM c20")
					case "query-weak":
						path, method, query = "/db/query", "GET", "level=weak&q="+url.QueryEscape("SELECT COUNT(*), MAX(id) FROM c20")
					case "request-strong-read":
						path, query, body = "/db/request", "level=strong", `["SELECT COUNT(*), MAX(id) FROM c20"]`
					}
					if redirect {
						query += "&redirect"
					}
					before, _ := c20Rows(leader, tag, "strong")
					r, err := c20Do(method, "http://"+node.APIAddr+path+"?"+query, body)
					if err != nil {
						rep.Note("request to %s failed: %v", node.ID, err)
						continue
					}
					// was leadership stable across the request? if not, only exactly-once is judged (at the end)
					if l2, err := cluster.Leader(); err != nil || l2.ID != leader.ID {
						rep.Count("requests-during-leadership-change")
						if r.status == 200 && (kind == "execute" || kind == "request-write") {
							if p, ok := c20Parse(r.body); ok && len(p.Results) == 1 && p.Results[0].Error == "" {
								acked = append(acked, ack{tag})
							}
						}
						continue
					}
					role := "leader"
					if isFollower {
						role = "follower"
					}
					key := fmt.Sprintf("round %d %s %s redirect=%v", round, role, kind, redirect)
					rep.Case(key, isFollower)
					rep.Count("role:" + role)
					rep.Count("kind:" + kind)
					isWrite := kind == "execute" || kind == "request-write"
					replay := map[string]interface{}{"case": key, "node": node.ID, "leader": leader.ID, "request": method + " " + path + "?" + query, "body": body, "status": r.status, "location": r.location, "served_by": r.servedBy, "response": r.body}

					// model
					lo, nf := "ok", "0"
					if isFollower {
						lo = "nl"
					}
					if redirect {
						nf = "1"
					}
					mk := map[string]string{"execute": "execute", "request-write": "request", "query-strong": "query", "query-weak": "query", "request-strong-read": "request"}[kind]
					ops = append(ops, fmt.Sprintf("proxy %s %s %s %s ok 0 0", mk, lo, nf, vfHex(leader.RaftAddr)))
					obs := "other:" + fmt.Sprint(r.status)
					switch {
					case r.status == 301:
						obs = "err-not-leader"
					case r.status == 200 && isFollower && r.servedBy == leader.RaftAddr:
						obs = "forwarded:" + vfHex(r.servedBy)
					case r.status == 200 && !isFollower:
						obs = "local-ok"
					}
					impl = append(impl, obs)

					if isFollower && redirect {
						wantLoc := "http://" + leader.APIAddr + path + "?" + query
						if r.status != 301 || r.location != wantLoc {
							rep.Fail("cluster:"+kind+":redirect-requested-on-follower-but-not-redirected", fmt.Sprintf("%s: status %d Location %q, want 301 to %q", key, r.status, r.location, wantLoc), replay)
						}
						if isWrite {
							if after, _ := c20Rows(leader, tag, "strong"); len(after) != len(before) {
								rep.Fail("cluster:"+kind+":executed-although-redirected", fmt.Sprintf("%s: the write was executed although the answer was a redirect", key), replay)
							}
						}
						continue
					}
					if r.status != 200 {
						// leadership may be moving: an error answer is acceptable, an acknowledged-but-lost write is not
						rep.Count("non-200-answers")
						continue
					}
					p, ok := c20Parse(r.body)
					if !ok {
						rep.Fail("cluster:"+kind+":malformed-answer", fmt.Sprintf("%s: %s", key, r.body), replay)
						continue
					}
					if p.Error != "" || len(p.Results) != 1 {
						// an error answer (e.g. "leadership transfer in progress"): nothing was acknowledged
						rep.Count("error-answers")
						continue
					}
					if isFollower && r.servedBy != leader.RaftAddr {
						rep.Fail("cluster:"+kind+":follower-answer-not-served-by-leader", fmt.Sprintf("%s: X-RQLITE-SERVED-BY %q, leader Raft address %q", key, r.servedBy, leader.RaftAddr), replay)
					}
					if isWrite {
						if p.Results[0].Error != "" {
							continue
						}
						acked = append(acked, ack{tag})
						after, err := c20Rows(leader, tag, "strong")
						if err != nil {
							continue
						}
						if len(after) != 1 {
							rep.Fail("cluster:"+kind+":acknowledged-write-not-exactly-once-on-leader", fmt.Sprintf("%s: %d rows with tag %s on the leader", key, len(after), tag), replay)
						} else if after[0] != p.Results[0].LastInsertID {
							rep.Fail("cluster:"+kind+":leader-result-altered", fmt.Sprintf("%s: answer says last_insert_id %d, the row on the leader has id %d", key, p.Results[0].LastInsertID, after[0]), replay)
						}
						if p.RaftIndex == 0 {
							rep.Fail("cluster:"+kind+":raft-index-missing", fmt.Sprintf("%s: raft_index requested but 0 returned", key), replay)
						}
					} else if kind != "query-weak" {
						// same strong read sent to the leader itself: identical results
						lr, err := c20Do(method, "http://"+leader.APIAddr+path+"?"+strings.TrimSuffix(query, "&redirect"), body)
						if err == nil && lr.status == 200 {
							lp, _ := c20Parse(lr.body)
							if len(lp.Results) == 1 && fmt.Sprint(lp.Results[0].Values) != fmt.Sprint(p.Results[0].Values) {
								rep.Fail("cluster:"+kind+":answer-differs-from-leaders", fmt.Sprintf("%s: via %s %v, leader says %v", key, node.ID, p.Results[0].Values, lp.Results[0].Values), replay)
							}
						}
					}
					rep.TracesValidated++
				}
			}
		}
	}

	// convergence: every acknowledged write exactly once on every node, via the log only
	ldr, err := cluster.Leader()
	if err != nil {
		t.Fatalf("no leader at the end: %v", err)
	}
	time.Sleep(500 * time.Millisecond)
	for _, a := range acked {
		want, _ := c20Rows(ldr, a.tag, "strong")
		for _, n := range cluster {
			var got []int64
			ok := trueOrTimeout(func() bool {
				got, _ = c20Rows(n, a.tag, "none")
				return fmt.Sprint(got) == fmt.Sprint(want)
			}, 10*time.Second)
			if !ok || len(want) != 1 {
				rep.Fail("cluster:write-not-exactly-once-on-every-node", fmt.Sprintf("tag %s: leader has rows %v, node %s has %v", a.tag, want, n.ID, got),
					map[string]interface{}{"tag": a.tag, "leader_rows": want, "node": n.ID, "node_rows": got})
			}
		}
	}
	rep.CountN("acknowledged-writes", len(acked))

	model, err := vfModel("proxy", ops)
	if err != nil {
		rep.Disagree(vfDisagreement{Component: "proxy", Note: err.Error(), At: -1})
		return
	}
	for i := range ops {
		m := model[i][strings.Index(model[i], "result=")+7:]
		if strings.HasPrefix(m, "local-ok") {
			m = "local-ok"
		}
		if strings.HasPrefix(impl[i], "other:") {
			continue // an error answer while leadership moves: outside the decision model
		}
		if m != impl[i] {
			rep.Disagree(vfDisagreement{Component: "proxy", Ops: []string{ops[i]}, Impl: []string{impl[i]}, Model: []string{m, "raw:" + model[i]}, At: 0})
		}
	}
	rep.Sample(map[string]interface{}{"nodes": len(cluster), "rounds": rounds, "requests": len(ops), "acknowledged_writes": len(acked)})
}

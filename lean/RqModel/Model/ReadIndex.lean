/-
`ReadIndex`: rqlite's read / write protocol over an ABSTRACT raft cluster (C02).

hashicorp/raft is not modelled: an execution `Exec` exposes only what the rqlite
code can observe or what raft's published guarantees talk about, and `RaftSem E` is
the structure of ASSUMED laws (hypotheses, passed as an argument — never an axiom):
election safety, leader completeness, state-machine safety in its "an entry appended
now lands above everything already committed" form, the contract of a successful
`Apply`, and the soundness of `VerifyLeader`.

On top of it the rqlite side is transcribed as timed runs:

* `ApplyRun`  – one successful `s.raft.Apply` (writes, strong reads, Request);
* `LogOpRun`  – `Execute` / strong `Query` / `Request`: the term is read
  (`readTerm := s.raft.CurrentTerm()`) before `Apply`; a strong read stores
  `strongReadTerm := readTerm` after `Apply` succeeded (tie: `Gen.ReadPath.query`,
  `Gen.ReadPath.request`, `Gen.ReadPath.strongReadTermStores`);
* `LinReadRun` – `waitForLinearizableRead`: ONE instant per entry of
  `LinRead.stepNames`, in that order (the order is what `Gen.ReadPath.waitLin` is
  proved equal to), plus what each step observed.
-/
import RqModel.Model.LinRead
import RqModel.Model.Linz
namespace RqModel.ReadIndex
open RqModel.LinRead (stepNames)

/-! Instants, node ids and terms are natural numbers (written `Nat` throughout so that
`omega` sees them). -/

/-- one call of `raft.Apply(cmd, timeout)` on `node` that made the node append an entry at
`index` as leader of `term`. Whether the future then returned nil, an error
(`ErrLeadershipLost`) or timed out is a SEPARATE fact (`Exec.applyRet`): an entry whose Apply
failed may still be committed later by a successor. -/
structure AppendRun where
  node  : Nat
  tInv  : Nat      -- when Apply was called
  index : Nat      -- the index the entry was appended at
  term  : Nat      -- the term in which the node appended it
deriving Repr, DecidableEq

/-- what can be said about one execution of the raft layer -/
structure Exec where
  term        : Nat → Nat → Nat            -- `raft.CurrentTerm()`
  commitIdx   : Nat → Nat → Nat             -- `raft.CommitIndex()`
  /-- `n` is the (a) leader of term `T` at instant `t` -/
  leaderAt    : Nat → Nat → Nat → Prop
  /-- leader `L` of term `T` has, at instant `tc`, a commit index `≥ i` -/
  committedBy : Nat → Nat → Nat → Nat → Prop
  /-- the entry at index `j` was appended by `n` as leader of term `T` -/
  ownEntry    : Nat → Nat → Nat → Prop
  /-- this `Apply` call happened and the node appended the entry -/
  appended    : AppendRun → Prop
  /-- that entry is part of the committed log (now or eventually) -/
  entryCommitted : AppendRun → Prop
  /-- the Apply future returned nil at instant `t` -/
  applyRet    : AppendRun → Nat → Prop
  /-- `raft.VerifyLeader()` on `n` was started at `t0` and returned nil at `t1` -/
  verifyOk    : Nat → Nat → Nat → Prop

/-- the assumed laws of raft (hashicorp/raft v1.7.3), as hypotheses -/
structure RaftSem (E : Exec) : Prop where
  term_mono : ∀ n t t', t ≤ t' → E.term n t ≤ E.term n t'
  commit_mono : ∀ n t t', t ≤ t' → E.commitIdx n t ≤ E.commitIdx n t'
  /-- only a leader advances a commit index, and it knows what it committed -/
  committed_by_leader : ∀ i L T tc, E.committedBy i L T tc → E.leaderAt L T tc ∧ i ≤ E.commitIdx L tc
  leader_term : ∀ n T t, E.leaderAt n T t → E.term n t = T
  /-- Election Safety: at most one leader per term -/
  election_safety : ∀ L L' T t t', E.leaderAt L T t → E.leaderAt L' T t' → L = L'
  /-- Leader Completeness (+ leaders only append): an entry committed in an earlier term
  sits below every entry a later leader appends itself -/
  leader_completeness : ∀ i L T tc n T' j, E.committedBy i L T tc → E.ownEntry n T' j → T < T' → i < j
  /-- State Machine Safety, in the form the protocol needs: an entry appended by an Apply call
  that ends up committed (whether or not that call returned success) lies above every
  index that was already committed when Apply was called -/
  append_above_committed : ∀ i L T tc a, E.committedBy i L T tc → E.appended a → E.entryCommitted a →
      tc ≤ a.tInv → i < a.index
  /-- contract of a successful Apply: the node was leader of `a.term` at some instant of the
  call, the entry is its own, and on return it is committed at that node -/
  apply_contract : ∀ a t, E.applyRet a t →
      E.appended a ∧ E.entryCommitted a ∧
      (∃ t', a.tInv ≤ t' ∧ t' ≤ t ∧ E.leaderAt a.node a.term t') ∧
      E.ownEntry a.node a.term a.index ∧ E.committedBy a.index a.node a.term t
  /-- log indexes start at 1 -/
  index_pos : ∀ a, E.appended a → 1 ≤ a.index
  /-- a node's commit index only covers what some leader had committed by then -/
  commit_is_committed : ∀ n t, E.commitIdx n t = 0 ∨
      ∃ L T tc, tc ≤ t ∧ E.committedBy (E.commitIdx n t) L T tc
  /-- soundness of VerifyLeader: if it succeeds while the node's term is `T'` throughout,
  nothing had been committed by a leader of a later term when it was started, and the
  node really is the leader of `T'` at some instant of the call -/
  verify_sound : ∀ n t0 t1 T', E.verifyOk n t0 t1 → E.term n t0 = T' → E.term n t1 = T' →
      (∀ i L T tc, E.committedBy i L T tc → tc ≤ t0 → T ≤ T') ∧
      (∃ t, t0 ≤ t ∧ t ≤ t1 ∧ E.leaderAt n T' t)

/-- `Execute`, strong `Query`, `Request` through the log. `ret = none`: Apply returned an
error or timed out — the client does not learn the outcome. -/
structure LogOpRun where
  tInv      : Nat          -- the client's invocation
  tReadTerm : Nat          -- `readTerm := s.raft.CurrentTerm()` (Query / Request)
  readTerm  : Nat
  apply     : AppendRun
  ret       : Option Nat   -- when `af.Error()` returned nil
  tResp     : Nat          -- the client's response (meaningful when `ret ≠ none`)
deriving Repr, DecidableEq

/-- well-formedness of a log operation against an execution -/
structure LogOpRun.Ok (E : Exec) (o : LogOpRun) : Prop where
  order1 : o.tInv ≤ o.tReadTerm
  order2 : o.tReadTerm ≤ o.apply.tInv     -- the term is read before Apply (ReadPath facts)
  term_read : o.readTerm = E.term o.apply.node o.tReadTerm
  appended : E.appended o.apply
  /-- it is in the committed log (operations that never commit are not part of a linearization) -/
  committed : E.entryCommitted o.apply
  /-- acknowledged only after Apply returned nil -/
  returned : ∀ t, o.ret = some t → E.applyRet o.apply t ∧ t ≤ o.tResp

/-- the index of a step of `waitForLinearizableRead` in source order -/
def stepIdx (name : String) : Nat := stepNames.idxOf name

/-- one run of `waitForLinearizableRead` that returned nil -/
structure LinReadRun where
  node       : Nat
  tInv       : Nat                 -- the client's invocation
  tReadTerm  : Nat                 -- caller: `readTerm := s.raft.CurrentTerm()`
  readTerm   : Nat
  /-- one instant per step of `LinRead.stepNames`, in source order -/
  steps      : List Nat
  /-- the strong read whose `strongReadTerm.Store(readTerm)` produced the loaded value
  (`none`: the value is still the 0 written by `Open`) -/
  stored     : Option LogOpRun
  tVerifyEnd : Nat                 -- VerifyLeader returned
  readIndex  : Nat
  tRead      : Nat                 -- the local database read (`s.db.QueryWithContext`)
  observed   : Nat                  -- the log index up to which the FSM had applied at that instant
  tResp      : Nat                 -- the client's response
deriving Repr

def LinReadRun.at (r : LinReadRun) (name : String) : Nat := r.steps.getD (stepIdx name) 0

def LinReadRun.strongReadTerm (r : LinReadRun) : Nat :=
  match r.stored with
  | none => 0
  | some s => s.readTerm

/-- what the steps observed, for a run that passed every guard -/
structure LinReadRun.Ok (E : Exec) (r : LinReadRun) : Prop where
  len : r.steps.length = stepNames.length
  sorted : r.steps.Pairwise (· ≤ ·)
  inv_first : r.tInv ≤ r.tReadTerm
  term_before_call : r.tReadTerm ≤ r.at "s.strongReadTerm.Load"
  term_read : r.readTerm = E.term r.node r.tReadTerm
  /-- `currReadTerm == s.strongReadTerm.Load()` -/
  strong_term_eq : r.readTerm = r.strongReadTerm
  /-- the strong read that stored the value ran on this node and had stored it before the load -/
  stored_ok : ∀ s, r.stored = some s → s.Ok E ∧ s.apply.node = r.node ∧
      ∃ t, s.ret = some t ∧ t ≤ r.at "s.strongReadTerm.Load"
  /-- `readIndex := s.raft.CommitIndex()` -/
  read_index : r.readIndex = E.commitIdx r.node (r.at "s.raft.CommitIndex")
  /-- `s.VerifyLeader() == nil` -/
  verified : E.verifyOk r.node (r.at "s.VerifyLeader") r.tVerifyEnd
  verify_end : r.at "s.VerifyLeader" ≤ r.tVerifyEnd ∧ r.tVerifyEnd ≤ r.at "s.raft.CurrentTerm"
  /-- `s.raft.CurrentTerm() == currReadTerm` -/
  term_unchanged : E.term r.node (r.at "s.raft.CurrentTerm") = r.readTerm
  /-- the database is read after the wait, the client is answered after that -/
  read_after : r.at "s.fsmTarget.Subscribe" ≤ r.tRead ∧ r.tRead ≤ r.tResp
  /-- the FSM only applies committed entries -/
  observed_committed : r.observed ≤ E.commitIdx r.node r.tRead

open RqModel.Linz in
/-- how a recorded client history `h` relates to an execution of the abstract cluster -/
structure ModelHistory (E : Exec) (h : History) where
  /-- the operations that were committed to the log (writes, strong reads), in log order -/
  logOps : List Nat
  /-- the linearizable reads answered after `q` of them had been applied -/
  reads  : Nat → List Nat
  pos    : Nat → Nat
  logRun : Nat → LogOpRun
  linRun : Nat → LinReadRun
  /-- a log operation need NOT have been acknowledged: a write whose Apply failed or timed out
  (`ret = none`, the client saw no response) is linearized all the same when it was committed -/
  log_ok : ∀ i ∈ logOps, (logRun i).Ok E ∧ (opAt h i).inv = (logRun i).tInv ∧
      ∀ t, (opAt h i).resp = some t → (∃ tr, (logRun i).ret = some tr) ∧ t = (logRun i).tResp
  log_sorted : logOps.Pairwise (fun a b => (logRun a).apply.index < (logRun b).apply.index)
  read_ok : ∀ q, ∀ r ∈ reads q, (linRun r).Ok E ∧ (opAt h r).inv = (linRun r).tInv ∧
      (opAt h r).resp = some (linRun r).tResp ∧ pos r = q ∧ q ≤ logOps.length ∧ r ∉ logOps
  /-- `q` is the number of log operations the read's database state contains -/
  read_pos : ∀ q, ∀ r ∈ reads q, ∀ j, j < logOps.length →
      ((logRun (logOps.getD j 0)).apply.index ≤ (linRun r).observed ↔ j < q)
  /-- the node-level run (LinRead model) attached to each linearizable read: the events up to the
  commit-index read, up to the `fsmWaitIndex` scan, and up to the local database read -/
  waitEs  : Nat → List LinRead.Ev
  waitEs1 : Nat → List LinRead.Ev
  waitEs2 : Nat → List LinRead.Ev
  /-- that run is the read's: no restart in flight, its commit index is the read index, the wait
  returned (the subscription fired), and what the FSM had processed is what the read observed.
  ASSUMED (Log Matching): the client's committed log operations are command entries of this
  node's log at their indexes (or already compacted away). -/
  wait_ok : ∀ q, ∀ r ∈ reads q,
      LinRead.NoReopen (waitEs1 r) ∧ LinRead.NoReopen (waitEs2 r) ∧
      (LinRead.run {} (waitEs r)).commit = (linRun r).readIndex ∧
      (LinRead.run (LinRead.run (LinRead.run {} (waitEs r)) (waitEs1 r)) (waitEs2 r)).handed = (linRun r).observed ∧
      LinRead.reached (LinRead.run (LinRead.run (LinRead.run {} (waitEs r)) (waitEs1 r)) (waitEs2 r))
        (LinRead.targetAt (LinRead.run (LinRead.run {} (waitEs r)) (waitEs1 r)) (LinRead.run {} (waitEs r)).commit) = true ∧
      ∀ a ∈ logOps, (logRun a).apply.index ≤ (linRun r).readIndex →
        (LinRead.run (LinRead.run {} (waitEs r)) (waitEs1 r)).typeAt (logRun a).apply.index = some (some .command) ∨
        (LinRead.run (LinRead.run {} (waitEs r)) (waitEs1 r)).typeAt (logRun a).apply.index = some none
  reads_nodup : ∀ q, (reads q).Nodup
  /-- inside a block the reads are listed in invocation order -/
  reads_sorted : ∀ q, (reads q).Pairwise (fun x y => (opAt h x).inv < (opAt h y).inv)
  in_range : ∀ x, (x ∈ logOps ∨ ∃ q, x ∈ reads q) → x < h.length
  complete : ∀ i, i < h.length → (opAt h i).resp ≠ none → i ∈ logOps ∨ ∃ q, q ≤ logOps.length ∧ i ∈ reads q
  /-- ASSUMED (deterministic FSM / SQLite as a register): a read returns what the table holds
  after the writes of the log prefix it saw -/
  read_val : ∀ q, ∀ r ∈ reads q, ∃ k res, (opAt h r).kind = .read k res ∧
      (runWrites h (logOps.take q) []).lookup k = res
  log_val : ∀ j, j < logOps.length → ∀ k res, (opAt h (logOps.getD j 0)).kind = .read k res →
      (runWrites h (logOps.take j) []).lookup k = res
  /-- invocation precedes response -/
  inv_lt_resp : ∀ i t, (opAt h i).resp = some t → (opAt h i).inv < t


end RqModel.ReadIndex

package db

// C06 correspondence + spec oracle: the real CheckpointManager / WALResetWatch on a
// real SQLite database in WAL mode, with real reader connections holding open read
// transactions at generated positions, against the Lean model `walckpt`
// (RqModel/Model/WalCkpt.lean).
//
// What is input and what is compared:
//   * the frames a write transaction puts into the WAL (page numbers, page images,
//     commit sizes) are READ from the real WAL after the write and given to the model;
//   * whether that write restarted the WAL (new salt) or appended is PREDICTED by the
//     model and compared (SQLite's WAL-reset law);
//   * every checkpoint attempt's (rc, pages, moved), the manager's WALReset flag, its
//     error class, the watch state afterwards and the frames of the captured segment
//     are PREDICTED by the model and compared;
//   * the database file after a truncating checkpoint is compared page by page.
// Spec oracle on the implementation (no model involved): after every successful
// capture the chain base + captured segments is replayed with the real db.ReplayWAL
// and its logical dump must equal the live database's; a WAL reset while the watch is
// armed must be reported; a salt never repeats.

import (
	"bytes"
	"context"
	"crypto/sha256"
	"database/sql"
	"encoding/binary"
	"errors"
	"fmt"
	"io"
	"os"
	"path/filepath"
	"strings"
	"testing"
	"time"

	command "github.com/rqlite/rqlite/v10/command/proto"
	"github.com/rqlite/rqlite/v10/db/wal"
)

const c06Timeout = 20 * time.Millisecond

type c06Frame struct {
	pgno, ver, commit int
}

type c06Env struct {
	t       *testing.T
	dir     string
	path    string
	db      *DB
	cm      *CheckpointManager
	readers map[int]*sql.Conn
	ids     map[[32]byte]int
	rng     *vfRng

	salt      [2]uint32 // salt of the WAL generation last seen
	nFrames   int       // valid frames of that generation last seen
	walSeen   bool      // WAL had a header when last seen
	seenSalts map[[2]uint32]bool
	armedSalt [2]uint32

	basePath string
	segs     [][]byte
	nextRow  int
	tables   int
	dueFull  bool
}

func (e *c06Env) id(page []byte) int {
	h := sha256.Sum256(page)
	if v, ok := e.ids[h]; ok {
		return v
	}
	v := len(e.ids) + 1
	e.ids[h] = v
	return v
}

// readWAL returns the salt and the checksum-valid frames of the current WAL generation.
func (e *c06Env) readWAL() (salt [2]uint32, frames []c06Frame, hasHeader bool) {
	f, err := os.Open(e.db.WALPath())
	if err != nil {
		return
	}
	defer f.Close()
	r := wal.NewReader(f)
	if err := r.ReadHeader(); err != nil {
		return
	}
	hasHeader = true
	s, err := wal.ReadSaltAt(f)
	if err != nil {
		e.t.Fatalf("read salt: %v", err)
	}
	salt = s
	if _, err := f.Seek(wal.WALHeaderSize, io.SeekStart); err != nil {
		e.t.Fatal(err)
	}
	buf := make([]byte, r.PageSize())
	for {
		pgno, commit, err := r.ReadFrame(buf)
		if err != nil {
			break
		}
		frames = append(frames, c06Frame{int(pgno), e.id(buf), int(commit)})
	}
	return
}

func (e *c06Env) filePages(path string) []int {
	b, err := os.ReadFile(path)
	if err != nil {
		e.t.Fatal(err)
	}
	if len(b) < 100 {
		return nil
	}
	ps := int(binary.BigEndian.Uint16(b[16:18]))
	if ps == 1 {
		ps = 65536
	}
	var out []int
	for off := 0; off+ps <= len(b); off += ps {
		out = append(out, e.id(b[off:off+ps]))
	}
	return out
}

func c06Ints(xs []int) string {
	if len(xs) == 0 {
		return "-"
	}
	ss := make([]string, len(xs))
	for i, x := range xs {
		ss[i] = fmt.Sprint(x)
	}
	return strings.Join(ss, ",")
}

func c06Frames(fs []c06Frame) string {
	if len(fs) == 0 {
		return "-"
	}
	ss := make([]string, len(fs))
	for i, f := range fs {
		ss[i] = fmt.Sprintf("%d:%d:%d", f.pgno, f.ver, f.commit)
	}
	return strings.Join(ss, ",")
}

func c06CopyFile(dst, src string) error {
	b, err := os.ReadFile(src)
	if err != nil {
		return err
	}
	return os.WriteFile(dst, b, 0o644)
}

// c06TempRoot prefers a memory-backed directory: the schedules fsync a lot and the
// property is not about durability.
func c06TempRoot() string {
	if st, err := os.Stat("/dev/shm"); err == nil && st.IsDir() {
		return "/dev/shm"
	}
	return ""
}

func c06Open(t *testing.T, r *vfRng) *c06Env {
	dir, err := os.MkdirTemp(c06TempRoot(), "verif-c06-")
	if err != nil {
		t.Fatal(err)
	}
	e := &c06Env{t: t, dir: dir, path: filepath.Join(dir, "db.sqlite"), readers: map[int]*sql.Conn{},
		ids: map[[32]byte]int{}, rng: r, seenSalts: map[[2]uint32]bool{}, tables: 2}
	e.db, err = Open(e.path, false, true)
	if err != nil {
		t.Fatalf("open: %v", err)
	}
	e.cm, err = NewCheckpointManager(e.db)
	if err != nil {
		t.Fatal(err)
	}
	mustExecute(e.db, "CREATE TABLE t0 (id INTEGER PRIMARY KEY, v TEXT, b BLOB)")
	mustExecute(e.db, "CREATE TABLE t1 (id INTEGER PRIMARY KEY, v TEXT, b BLOB)")
	mustExecute(e.db, "CREATE INDEX t1v ON t1(v)")
	for i := 0; i < 1+r.Intn(4); i++ {
		mustExecute(e.db, e.genInsert())
	}
	meta, _, err := e.cm.Checkpoint(nil, time.Second)
	if err != nil || !meta.Success() {
		t.Fatalf("initial checkpoint: %v %v", meta, err)
	}
	e.basePath = filepath.Join(dir, "base.sqlite")
	if err := c06CopyFile(e.basePath, e.path); err != nil {
		t.Fatal(err)
	}
	return e
}

func (e *c06Env) close() {
	for id := range e.readers {
		e.rstop(id)
	}
	e.db.Close()
	os.RemoveAll(e.dir)
}

func (e *c06Env) blob() string {
	sizes := []int{0, 8, 40, 700, 3000, 5000, 9000, 20000}
	n := sizes[e.rng.Intn(len(sizes))]
	return "x'" + fmt.Sprintf("%x", e.rng.Bytes(n)) + "'"
}

func (e *c06Env) genInsert() string {
	e.nextRow++
	return fmt.Sprintf("INSERT INTO t%d(v,b) VALUES('r%d-%d',%s)", e.rng.Intn(2), e.nextRow, e.rng.Intn(1000), e.blob())
}

func (e *c06Env) genStmt() string {
	switch k := e.rng.Intn(100); {
	case k < 50:
		return e.genInsert()
	case k < 70:
		return fmt.Sprintf("UPDATE t%d SET v='u%d' WHERE id%%%d=%d", e.rng.Intn(2), e.rng.Intn(1000), 1+e.rng.Intn(4), e.rng.Intn(3))
	case k < 80:
		return fmt.Sprintf("UPDATE t%d SET b=%s WHERE id%%%d=%d", e.rng.Intn(2), e.blob(), 2+e.rng.Intn(4), e.rng.Intn(3))
	case k < 92:
		return fmt.Sprintf("DELETE FROM t%d WHERE id%%%d=%d", e.rng.Intn(2), 2+e.rng.Intn(4), e.rng.Intn(3))
	case k < 96:
		e.tables++
		return fmt.Sprintf("CREATE TABLE u%d (id INTEGER PRIMARY KEY, x TEXT)", e.tables)
	default:
		return fmt.Sprintf("CREATE INDEX IF NOT EXISTS i%d ON t0(v,id)", e.rng.Intn(3))
	}
}

// write runs one write transaction and returns the model line and the observed kind;
// ok=false when the transaction put nothing into the WAL.
func (e *c06Env) write(rep *vfReport) (line, kind string, ok bool) {
	n := 1
	if e.rng.Chance(30) {
		n = 2 + e.rng.Intn(3)
	}
	req := &command.Request{Transaction: n > 1}
	for i := 0; i < n; i++ {
		req.Statements = append(req.Statements, &command.Statement{Sql: e.genStmt()})
	}
	res, err := e.db.Execute(req, false)
	if err != nil {
		e.t.Fatalf("execute: %v", err)
	}
	for _, r := range res {
		if r.GetError() != "" {
			rep.Count("write-statement-error")
		}
	}
	salt, frames, hdr := e.readWAL()
	if !hdr {
		return "", "", false
	}
	var added []c06Frame
	switch {
	case !e.walSeen:
		kind, added = "fresh", frames
	case salt != e.salt:
		kind, added = "reset", frames
	default:
		if len(frames) < e.nFrames {
			e.t.Fatalf("WAL shrank without a salt change: %d -> %d", e.nFrames, len(frames))
		}
		kind, added = "append", frames[e.nFrames:]
	}
	if len(added) == 0 {
		return "", "", false
	}
	if kind != "append" {
		if e.seenSalts[salt] {
			rep.Fail("wal-salt-repeated", fmt.Sprintf("salt %v reused after a %s write", salt, kind), nil)
		}
		e.seenSalts[salt] = true
	}
	e.salt, e.nFrames, e.walSeen = salt, len(frames), true
	return "write " + c06Frames(added), kind, true
}

func (e *c06Env) rstart(id int) {
	ctx := context.Background()
	c, err := e.db.roDB.Conn(ctx)
	if err != nil {
		e.t.Fatal(err)
	}
	if _, err := c.ExecContext(ctx, "BEGIN"); err != nil {
		e.t.Fatal(err)
	}
	var n int
	if err := c.QueryRowContext(ctx, "SELECT count(*) FROM t0").Scan(&n); err != nil {
		e.t.Fatal(err)
	}
	e.readers[id] = c
}

func (e *c06Env) rstop(id int) {
	c := e.readers[id]
	if c == nil {
		return
	}
	c.ExecContext(context.Background(), "ROLLBACK")
	c.Close()
	delete(e.readers, id)
}

func c06ErrKind(err error) string {
	switch {
	case err == nil:
		return "none"
	case errors.Is(err, ErrDatabaseCheckpointBusy):
		return "busy"
	case errors.Is(err, ErrDatabaseCheckpointInvariant):
		return "invariant"
	case errors.Is(err, wal.ErrOpenTransaction):
		return "opentx"
	case strings.Contains(err.Error(), "checkpoint did not complete"):
		return "notcomplete"
	}
	return "other:" + strings.ReplaceAll(err.Error(), " ", "_")
}

func (e *c06Env) parseSeg(b []byte) []c06Frame {
	r := wal.NewReader(bytes.NewReader(b))
	if err := r.ReadHeader(); err != nil {
		e.t.Fatalf("segment header: %v", err)
	}
	buf := make([]byte, r.PageSize())
	var out []c06Frame
	for {
		pgno, commit, err := r.ReadFrame(buf)
		if err != nil {
			break
		}
		out = append(out, c06Frame{int(pgno), e.id(buf), int(commit)})
	}
	want := wal.WALHeaderSize + len(out)*(wal.WALFrameHeaderSize+int(r.PageSize()))
	if want != len(b) {
		e.t.Fatalf("segment has %d bytes, %d checksum-valid frames account for %d", len(b), len(out), want)
	}
	return out
}

func (e *c06Env) dump(d *DB) string {
	var b bytes.Buffer
	if err := d.Dump(&b); err != nil {
		e.t.Fatalf("dump: %v", err)
	}
	return b.String()
}

// rebuild replays base + captured segments with the real ReplayWAL and returns the
// logical dump and the page ids of the rebuilt file.
func (e *c06Env) rebuild() (string, []int, error) {
	tmp, err := os.MkdirTemp(e.dir, "rebuild-")
	if err != nil {
		e.t.Fatal(err)
	}
	defer os.RemoveAll(tmp)
	p := filepath.Join(tmp, "r.sqlite")
	if err := c06CopyFile(p, e.basePath); err != nil {
		e.t.Fatal(err)
	}
	var wals []string
	for i, s := range e.segs {
		w := filepath.Join(tmp, fmt.Sprintf("%06d.wal", i))
		if err := os.WriteFile(w, s, 0o644); err != nil {
			e.t.Fatal(err)
		}
		wals = append(wals, w)
	}
	if err := ReplayWAL(p, wals, false); err != nil {
		return "", nil, err
	}
	pages := e.filePages(p)
	d, err := Open(p, false, true)
	if err != nil {
		return "", nil, err
	}
	defer d.Close()
	return e.dump(d), pages, nil
}

// capture = incremental branch of fsmSnapshot: Checkpoint(buf); keep the segment iff err == nil.
func (e *c06Env) capture(rep *vfReport, hist []string) (string, string) {
	preArmed := e.cm.resetWatch.armed
	preSalt, _, hdr := e.readWAL()
	var buf bytes.Buffer
	meta, _, err := e.cm.Checkpoint(&buf, c06Timeout)
	kind := c06ErrKind(err)
	if meta == nil {
		return fmt.Sprintf("nil-meta err=%s", kind), "error"
	}
	seg := "none"
	if err == nil && buf.Len() > 0 {
		fs := e.parseSeg(buf.Bytes())
		seg = c06Frames(fs)
		e.segs = append(e.segs, append([]byte(nil), buf.Bytes()...))
	}
	// oracle: a reset since the watch was armed must be reported
	if preArmed && hdr {
		changed := [2]uint32(preSalt) != e.armedSalt
		if changed != meta.WALReset {
			rep.Fail("reset-detection-wrong", fmt.Sprintf("watch armed with salt %v, WAL salt now %v, WALReset=%v", e.armedSalt, preSalt, meta.WALReset),
				map[string]interface{}{"history": hist})
		}
	} else if meta.WALReset {
		rep.Fail("reset-reported-while-unarmed", "WALReset=true but the watch was not armed", map[string]interface{}{"history": hist})
	}
	outcome := "busy"
	switch {
	case err == nil && meta.Code == 0:
		outcome = "truncated"
		e.walSeen, e.nFrames = false, 0
	case err == nil:
		outcome = "all-moved-not-truncated"
		e.armedSalt = [2]uint32(preSalt)
	}
	out := fmt.Sprintf("rc=%d pages=%d moved=%d reset=%v err=%s armed=%v resume=%d seg=%s", meta.Code, meta.Pages, meta.Moved,
		meta.WALReset, kind, e.cm.resetWatch.armed, e.cm.resetWatch.resumeFrameIdx, seg)
	return out, outcome
}

func (e *c06Env) full() (string, bool) {
	meta, _, err := e.cm.Checkpoint(nil, c06Timeout)
	kind := c06ErrKind(err)
	if meta == nil {
		return fmt.Sprintf("nil-meta err=%s", kind), false
	}
	ok := err == nil
	if ok {
		e.walSeen, e.nFrames = false, 0
		e.segs = nil
		if err := c06CopyFile(e.basePath, e.path); err != nil {
			e.t.Fatal(err)
		}
	}
	return fmt.Sprintf("rc=%d pages=%d moved=%d err=%s armed=%v", meta.Code, meta.Pages, meta.Moved, kind, e.cm.resetWatch.armed), ok
}

var c06HistoryN int

func c06History(t *testing.T, rep *vfReport, r *vfRng, nOps int) (ops, impl []string) {
	e := c06Open(t, r)
	defer e.close()
	ops = append(ops, "open "+c06Ints(e.filePages(e.path)))
	impl = append(impl, "ok")
	var hist []string
	outcomes := map[string]int{}
	nextReader := 0
	emit := func(o, i string) { ops = append(ops, o); impl = append(impl, i) }
	// a directed prefix drives the manager into the all-moved-not-truncated state
	// (reader pinned at the end of the WAL) before the random schedule continues
	script := []string{}
	c06HistoryN++
	// the FIRST attempt after a WAL reset is a BUSY one: reader at the WAL end -> capture moves
	// everything, no truncation, watch armed; reader ends + write -> SQLite resets the WAL (new
	// salt); a second reader, then a write after its mark -> the attempt that sees the salt
	// change fails busy and must STILL report WALReset (the watch is one-shot: no later attempt
	// can); then later attempts. Every run's first history and 1 in 8 of the others.
	resetThenBusy := []string{"write", "rstart", "capture", "rstop-first", "write", "rstart", "write", "capture", "write", "capture", "rstop-first", "capture"}
	if c06HistoryN == 1 || r.Chance(12) {
		script = resetThenBusy
		rep.Count("directed-reset-then-busy-attempt")
	} else if r.Chance(45) {
		script = []string{"write", "rstart", "capture"}
		switch r.Intn(3) {
		case 0:
			script = []string{"write", "write", "rstart", "capture", "rstop", "write", "capture"}
		case 1:
			// consecutive partial checkpoints on ONE WAL generation: overlapping readers keep
			// the WAL from being reset, every capture resumes where the previous one stopped
			script = []string{"write", "rstart", "capture", "write", "rstart", "rstop-first", "capture", "write"}
			for k := r.Intn(3); k > 0; k-- {
				script = append(script, "rstart", "rstop-first", "capture", "write")
			}
			script = append(script, "rstop-first", "capture")
		}
	}
	for i := 0; i < nOps; i++ {
		op := ""
		if len(script) > 0 {
			op, script = script[0], script[1:]
		} else {
			k := r.Intn(100)
			switch {
			case e.dueFull && k < 45:
				op = "full"
			case e.dueFull && k < 80:
				op = "rstop"
			case e.dueFull:
				op = "write"
			case k < 35:
				op = "write"
			case k < 50:
				op = "rstart"
			case k < 65:
				op = "rstop"
			case k < 96:
				op = "capture"
			default:
				op = "full"
			}
		}
		if op == "capture" && e.dueFull {
			op = "full"
		}
		switch op {
		case "write":
			line, kind, ok := e.write(rep)
			if !ok {
				rep.Count("write-without-frames")
				continue
			}
			hist = append(hist, "W:"+kind)
			rep.Count("write-" + kind)
			emit(line, kind)
		case "rstart":
			if len(e.readers) >= 3 {
				continue
			}
			nextReader++
			e.rstart(nextReader)
			hist = append(hist, fmt.Sprintf("R+%d", nextReader))
			rep.Count("reader-start")
			emit(fmt.Sprintf("rstart %d", nextReader), "ok")
		case "rstop", "rstop-first":
			if len(e.readers) == 0 {
				continue
			}
			var ids []int
			for id := 1; id <= nextReader; id++ {
				if e.readers[id] != nil {
					ids = append(ids, id)
				}
			}
			id := ids[r.Intn(len(ids))]
			if op == "rstop-first" {
				id = ids[0]
			}
			e.rstop(id)
			hist = append(hist, fmt.Sprintf("R-%d", id))
			rep.Count("reader-stop")
			emit(fmt.Sprintf("rstop %d", id), "ok")
		case "capture":
			out, outcome := e.capture(rep, hist)
			hist = append(hist, "C:"+outcome)
			outcomes[outcome]++
			rep.Count("capture-" + outcome)
			emit("capture", out)
			if outcome == "truncated" {
				emit("dbfile", c06Ints(e.filePages(e.path)))
			}
			if outcome != "busy" && outcome != "error" {
				live := e.dump(e.db)
				got, pages, err := e.rebuild()
				if err != nil {
					rep.Fail("segments-cannot-be-replayed:last-capture="+outcome, err.Error(), map[string]interface{}{"history": hist})
				} else if got != live {
					rep.Fail("segments-do-not-reproduce-live-db:last-capture="+outcome,
						fmt.Sprintf("after history %v the database rebuilt from base + %d segment(s) differs from the live database", hist, len(e.segs)),
						map[string]interface{}{"history": hist, "live_dump_len": len(live), "rebuilt_dump_len": len(got)})
				} else {
					rep.Count("rebuild-equals-live")
				}
				if err == nil {
					emit("rebuilt", c06Ints(pages))
				}
			}
		case "full":
			if !e.dueFull {
				emit("needfull", "ok") // the store takes the full branch only when a full snapshot is due
			}
			out, ok := e.full()
			hist = append(hist, fmt.Sprintf("F:%v", ok))
			rep.Count(fmt.Sprintf("full-ok=%v", ok))
			emit("full", out)
			e.dueFull = !ok
			if ok {
				emit("dbfile", c06Ints(e.filePages(e.path)))
			}
		}
	}
	blocked := outcomes["busy"] + outcomes["all-moved-not-truncated"]
	rep.Case(strings.Join(hist, " "), blocked > 0 && outcomes["truncated"]+outcomes["all-moved-not-truncated"] > 0)
	if len(rep.Samples) < 3 {
		rep.Sample(map[string]interface{}{"history": strings.Join(hist, " ")})
	}
	return
}

func TestVerifC06(t *testing.T) {
	rep := vfNewReport("C06", "generated schedules of write transactions (1-4 statements: inserts with blobs up to 20 kB, updates, deletes, DDL), reader start/stop (≤3 concurrent read transactions on real read-only connections) and incremental/full checkpoint attempts on a real WAL-mode SQLite database; a schedule is non-trivial when at least one attempt was blocked (busy or all-moved-not-truncated) and at least one capture succeeded; distinct by outcome-annotated schedule")
	defer rep.Write()
	r := c06Rng(6)
	n := vfScale(60, 1500)
	var allOps, allImpl [][]string
	for h := 0; h < n; h++ {
		ops, impl := c06History(t, rep, r, 10+r.Intn(vfScale(25, 60)))
		allOps = append(allOps, ops)
		allImpl = append(allImpl, impl)
	}
	rep.vfCompareSegments("walckpt", allOps, allImpl)
}

// c06Rng decorrelates seeds: vfNewRng's streams for seeds k and k+1 are the same sequence
// shifted by one draw, so the state is hashed once before use.
func c06Rng(salt uint64) *vfRng {
	r := vfNewRng(salt)
	r.s = r.U64()*0x2545F4914F6CDD1D + salt
	return r
}

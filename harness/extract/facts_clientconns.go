package main

// ClientConns (C20): cluster/client.go — every `if … err != nil { … }` branch whose
// condition or preceding statement performs a write to / read from a pooled
// connection (writeCommand, readResponse, writeCommandReadResponse), with the first
// statement of the branch. The pairing of responses with requests on pooled
// connections relies on that first statement being handleConnError(conn).

import (
	"fmt"
	"go/ast"
	"strings"
)

func init() {
	register("ClientConns", func(x *X) {
		var items []string
		io := map[string]bool{"writeCommand": true, "readResponse": true, "writeCommandReadResponse": true}
		files := x.Pkg("cluster")
		f := files["client.go"]
		if f != nil {
			for _, d := range f.Decls {
				fd, ok := d.(*ast.FuncDecl)
				if !ok || fd.Body == nil {
					continue
				}
				// walk every block: statement i performs conn i/o (as an assignment) and statement i+1
				// is `if err != nil {…}`, or an if statement whose init/cond performs the i/o
				ast.Inspect(fd.Body, func(n ast.Node) bool {
					bl, ok := n.(*ast.BlockStmt)
					if !ok {
						return true
					}
					for i, st := range bl.List {
						is, ok := st.(*ast.IfStmt)
						if !ok {
							continue
						}
						call := ""
						find := func(n ast.Node) {
							if n == nil {
								return
							}
							ast.Inspect(n, func(m ast.Node) bool {
								if c, ok := m.(*ast.CallExpr); ok && io[calleeName(c)] && len(c.Args) > 0 && x.Src(c.Args[0]) == "conn" {
									call = calleeName(c)
								}
								return true
							})
						}
						find(is.Init)
						find(is.Cond)
						// otherwise: the nearest preceding assignment (at most 3 statements back) that performs
						// the i/o and assigns `err`; whatever stands in between is reported
						var between []string
						if call == "" && strings.Contains(x.Src(is.Cond), "!= nil") {
							for j := i - 1; j >= 0 && j >= i-3; j-- {
								if as, ok := bl.List[j].(*ast.AssignStmt); ok {
									find(as)
									if call != "" {
										break
									}
								}
								between = append([]string{x.Src(bl.List[j])}, between...)
							}
							if call == "" {
								between = nil
							}
						}
						if call == "" || !strings.Contains(x.Src(is.Cond), "!= nil") || fd.Name.Name == "writeCommandReadResponse" {
							continue
						}
						first := ""
						if len(is.Body.List) > 0 {
							first = x.Src(is.Body.List[0])
						}
						items = append(items, fmt.Sprintf("  (%s, %s, %s, %s)", LeanStr(fd.Name.Name), LeanStr(call), leanStrs(between), LeanStr(first)))
					}
					return true
				})
			}
		}
		x.Comment("cluster/client.go: (function, connection i/o call, statements between the call and its error test, first statement of the error branch)")
		x.Raw("def errorBranches : List (String × String × List String × String) := [\n" + strings.Join(items, ",\n") + "]")
		var body []string
		if fd := x.Func("cluster", "", "handleConnError"); fd != nil {
			for _, s := range fd.Body.List {
				body = append(body, x.Src(s))
			}
		}
		x.DefStrings("handleConnErrorBody", body)
		// (*Client).retry: the statements of the retry loop between `if errOuter == nil { break }` and
		// `nRetries++`, i.e. what decides whether a failed attempt is followed by another one; and how
		// many pooled attempts there are.
		var guards []string
		eff := ""
		loopFound := false
		if fd := x.Func("cluster", "Client", "retry"); fd != nil {
			for _, st := range fd.Body.List {
				if as, ok := st.(*ast.AssignStmt); ok && len(as.Lhs) == 1 && x.Src(as.Lhs[0]) == "effectiveRetries" {
					eff = x.Src(as)
				}
				fs, ok := st.(*ast.ForStmt)
				if !ok || loopFound {
					continue
				}
				loopFound = true
				in := false
				for _, b := range fs.Body.List {
					src := x.Src(b)
					if src == "nRetries++" {
						break
					}
					if in {
						guards = append(guards, src)
					}
					if src == "if errOuter == nil { break }" {
						in = true
					}
				}
			}
		}
		x.Comment("cluster/client.go (*Client).retry: statements between `if errOuter == nil { break }` and `nRetries++`")
		x.DefBool("retryLoopFound", loopFound)
		x.DefStrings("retryGuardsBeforeResend", guards)
		x.DefString("effectiveRetriesDef", eff)
	})
}

package main

// HttpRoutes (C18): http/service.go (*Service).ServeHTTP routing switch and the
// permission guard of every handler it dispatches to.

import (
	"fmt"
	"go/ast"
	"go/token"
	"strconv"
	"strings"
)

const httpRouteTypes = `
/-- a statement of a routing case other than the handler call -/
inductive Pre where
  | stat                                   -- stats.Add(…)
  | redirect                               -- http.Redirect(…)
  | redirectIfExact (path : String)        -- if r.URL.Path == path { http.Redirect(…); return }
  | status (code : String)                 -- w.WriteHeader(http.StatusX)
  | other (src : String)
deriving DecidableEq, Repr

structure Route where
  exact : List String        -- r.URL.Path == "…" alternatives ("default" case: both lists empty, isDefault)
  prefixes : List String     -- strings.HasPrefix(r.URL.Path, "…") alternatives
  isDefault : Bool
  pre : List Pre             -- statements before the handler call
  handler : String           -- "handleX", "" when the case calls no handler
  post : List String         -- source of statements after the handler call
deriving Repr

structure Handler where
  name : String
  pre : List String              -- source of the statements before the permission guard
  guardAll : Option Bool         -- some false: CheckRequestPerm, some true: CheckRequestPermAll, none: no guard found
  perms : List String
  denyBody : List String         -- source of the guard's body
  negated : Bool                 -- guard condition is the negated check
deriving Repr
`

func init() {
	register("HttpRoutes", func(x *X) {
		x.Raw(httpRouteTypes)
		fd := x.Func("http", "Service", "ServeHTTP")
		var sw *ast.SwitchStmt
		var prelude []string
		if fd != nil {
			for _, s := range fd.Body.List {
				if t, ok := s.(*ast.SwitchStmt); ok && t.Tag == nil {
					sw = t
					break
				}
				prelude = append(prelude, x.Src(s))
			}
		}
		x.Comment("http/service.go ServeHTTP: statements before the routing switch")
		x.DefStrings("prelude", prelude)
		x.DefBool("switchFound", sw != nil)
		var routes []string
		handlers := []string{}
		seen := map[string]bool{}
		if sw != nil {
			for _, cl := range sw.Body.List {
				cc := cl.(*ast.CaseClause)
				var exact, prefixes []string
				bad := false
				for _, e := range cc.List {
					if !httpPattern(x, e, &exact, &prefixes) {
						bad = true
					}
				}
				var pre []string
				var post []string
				handler := ""
				for _, s := range cc.Body {
					if es, ok := s.(*ast.ExprStmt); ok {
						if ce, ok := es.X.(*ast.CallExpr); ok {
							p := x.Src(ce.Fun)
							if strings.HasPrefix(p, "s.handle") && handler == "" {
								handler = strings.TrimPrefix(p, "s.")
								continue
							}
						}
					}
					if handler != "" {
						post = append(post, x.Src(s))
						continue
					}
					pre = append(pre, httpPre(x, s))
				}
				if bad {
					pre = append(pre, "(.other "+LeanStr("unrecognised case expression: "+x.Src(cc))+")")
				}
				routes = append(routes, fmt.Sprintf("  { exact := %s, prefixes := %s, isDefault := %v, pre := [%s], handler := %s, post := %s }",
					leanStrs(exact), leanStrs(prefixes), len(cc.List) == 0, strings.Join(pre, ", "), LeanStr(handler), leanStrs(post)))
				if handler != "" && !seen[handler] {
					seen[handler] = true
					handlers = append(handlers, httpHandler(x, handler))
				}
			}
		}
		x.Comment("one entry per case of the routing switch, in source order (first match wins)")
		x.Raw("def routes : List Route := [\n" + strings.Join(routes, ",\n") + "]")
		x.Comment("the handlers the switch dispatches to")
		x.Raw("def handlers : List Handler := [\n" + strings.Join(handlers, ",\n") + "]")

		// every method of Service named handle* (a handler the switch does not reach would be dead or reached otherwise)
		var all []string
		for _, f := range x.Pkg("http") {
			for _, d := range f.Decls {
				if fd, ok := d.(*ast.FuncDecl); ok && fd.Recv != nil && strings.HasPrefix(fd.Name.Name, "handle") && recvName(fd.Recv.List[0].Type) == "Service" {
					all = append(all, fd.Name.Name)
				}
			}
		}
		sortStrings(all)
		x.DefStrings("allHandleMethods", all)
	})
}

func sortStrings(a []string) {
	for i := 1; i < len(a); i++ {
		for j := i; j > 0 && a[j] < a[j-1]; j-- {
			a[j], a[j-1] = a[j-1], a[j]
		}
	}
}

func leanStrs(vs []string) string {
	q := make([]string, len(vs))
	for i, v := range vs {
		q[i] = LeanStr(v)
	}
	return "[" + strings.Join(q, ", ") + "]"
}

func httpPattern(x *X, e ast.Expr, exact, prefixes *[]string) bool {
	switch t := e.(type) {
	case *ast.ParenExpr:
		return httpPattern(x, t.X, exact, prefixes)
	case *ast.BinaryExpr:
		if t.Op == token.LOR {
			return httpPattern(x, t.X, exact, prefixes) && httpPattern(x, t.Y, exact, prefixes)
		}
		if t.Op == token.EQL && x.Src(t.X) == "r.URL.Path" {
			if bl, ok := t.Y.(*ast.BasicLit); ok && bl.Kind == token.STRING {
				s, _ := strconv.Unquote(bl.Value)
				*exact = append(*exact, s)
				return true
			}
		}
	case *ast.CallExpr:
		if x.Src(t.Fun) == "strings.HasPrefix" && len(t.Args) == 2 && x.Src(t.Args[0]) == "r.URL.Path" {
			if bl, ok := t.Args[1].(*ast.BasicLit); ok && bl.Kind == token.STRING {
				s, _ := strconv.Unquote(bl.Value)
				*prefixes = append(*prefixes, s)
				return true
			}
		}
	}
	return false
}

func httpPre(x *X, s ast.Stmt) string {
	switch t := s.(type) {
	case *ast.ExprStmt:
		if ce, ok := t.X.(*ast.CallExpr); ok {
			switch x.Src(ce.Fun) {
			case "stats.Add":
				return ".stat"
			case "http.Redirect":
				return ".redirect"
			case "w.WriteHeader":
				if len(ce.Args) == 1 {
					return "(.status " + LeanStr(x.Src(ce.Args[0])) + ")"
				}
			}
		}
	case *ast.IfStmt:
		if t.Init == nil && t.Else == nil && len(t.Body.List) == 2 {
			if be, ok := t.Cond.(*ast.BinaryExpr); ok && be.Op == token.EQL && x.Src(be.X) == "r.URL.Path" {
				if bl, ok := be.Y.(*ast.BasicLit); ok && bl.Kind == token.STRING {
					_, isRet := t.Body.List[1].(*ast.ReturnStmt)
					if httpPre(x, t.Body.List[0]) == ".redirect" && isRet {
						p, _ := strconv.Unquote(bl.Value)
						return "(.redirectIfExact " + LeanStr(p) + ")"
					}
				}
			}
		}
	}
	return "(.other " + LeanStr(x.Src(s)) + ")"
}

func httpHandler(x *X, name string) string {
	fd := x.Func("http", "Service", name)
	var pre, deny, perms []string
	guardAll := "none"
	negated := false
	if fd != nil && fd.Body != nil {
		for _, s := range fd.Body.List {
			if is, ok := s.(*ast.IfStmt); ok && is.Init == nil {
				cond := is.Cond
				neg := false
				if u, ok := cond.(*ast.UnaryExpr); ok && u.Op == token.NOT {
					cond, neg = u.X, true
				}
				if ce, ok := cond.(*ast.CallExpr); ok {
					p := x.Src(ce.Fun)
					if (p == "s.CheckRequestPerm" || p == "s.CheckRequestPermAll") && len(ce.Args) >= 2 && x.Src(ce.Args[0]) == "r" && is.Else == nil {
						c := &ccx{x: x}
						for _, a := range ce.Args[1:] {
							perms = append(perms, c.permName(a))
						}
						guardAll = fmt.Sprintf("some %v", p == "s.CheckRequestPermAll")
						negated = neg
						for _, b := range is.Body.List {
							deny = append(deny, x.Src(b))
						}
						break
					}
				}
			}
			pre = append(pre, x.Src(s))
		}
		if guardAll == "none" {
			pre = nil
		}
	}
	return fmt.Sprintf("  { name := %s, pre := %s, guardAll := %s, perms := %s, denyBody := %s, negated := %v }",
		LeanStr(name), leanStrs(pre), guardAll, leanStrs(perms), leanStrs(deny), negated)
}

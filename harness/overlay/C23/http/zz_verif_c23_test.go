package http

// C23 correspondence + spec oracle through the REAL http.Service (public
// constructor, real HTTP requests to /db/execute?queue, real queue.Queue, real
// runQueue) with a scripted mock store behind the real proxy.
//
// Concurrent clients post queued requests (with and without `wait`), each statement
// carrying a unique number. The mock store "applies" a batch only when it returns
// success; scripted bursts of ErrLeaderNotFound / ErrNotLeader(+failing or succeeding
// forward) make runQueue retry (1 s per failure: kept few). The property is evaluated
// on what was observed, and a model schedule built from the observation (requests in
// sequence-number order, observed batch cuts, observed failure counts) must be
// accepted and reproduced by the Lean model `queuesvc`. No time value is diffed.

import (
	"encoding/json"
	"errors"
	"fmt"
	"io"
	"net/http"
	"regexp"
	"sort"
	"strconv"
	"strings"
	"sync"
	"sync/atomic"
	"testing"
	"time"

	command "github.com/rqlite/rqlite/v10/command/proto"
	"github.com/rqlite/rqlite/v10/proxy"
	"github.com/rqlite/rqlite/v10/store"
)

var c23ValRe = regexp.MustCompile(`VALUES\s*\(\s*(\d+)\s*\)`)

type c23Req struct {
	client, idx int
	stmts       []int
	wait        bool
	seq         int64
	status      int
	missing     int // statements not yet applied when the wait response arrived
}

type c23Batch struct {
	stmts   []int
	fails   int   // failed attempts before the successful one
	prevSeq int64 // s.seqNum when the successful Execute was called
	tx      bool
}

func c23Ints(xs []int) string {
	if len(xs) == 0 {
		return "-"
	}
	p := make([]string, len(xs))
	for i, x := range xs {
		p[i] = strconv.Itoa(x)
	}
	return strings.Join(p, ",")
}

type c23Run struct {
	cap, batch      int
	timeout         time.Duration
	clients, perCli int
	failAt          map[int]string // Execute call number -> failure kind
	seed            uint64
	bigReqs         bool
}

func c23Do(rep *vfReport, rn c23Run, runIdx int) (ops, out []string, ok bool) {
	var mu sync.Mutex
	applied := map[int]bool{}
	var batches []c23Batch
	calls, pendingFails := 0, 0
	var svc *Service
	m := &MockStore{leaderAddr: "127.0.0.1:4002"}
	c := &mockClusterService{}
	ids := func(er *command.ExecuteRequest) []int {
		var r []int
		for _, st := range er.Request.Statements {
			mm := c23ValRe.FindStringSubmatch(st.Sql)
			if mm == nil {
				r = append(r, -1)
				continue
			}
			v, _ := strconv.Atoi(mm[1])
			r = append(r, v)
		}
		return r
	}
	apply := func(er *command.ExecuteRequest) {
		b := c23Batch{stmts: ids(er), fails: pendingFails, prevSeq: atomic.LoadInt64(&svc.seqNum), tx: er.Request.Transaction}
		pendingFails = 0
		for _, s := range b.stmts {
			applied[s] = true
		}
		batches = append(batches, b)
	}
	forwardFail := false
	m.executeFn = func(er *command.ExecuteRequest) ([]*command.ExecuteQueryResponse, uint64, error) {
		mu.Lock()
		defer mu.Unlock()
		calls++
		switch rn.failAt[calls] {
		case "leader-not-found":
			pendingFails++
			return nil, 0, store.ErrLeaderNotFound
		case "not-leader-forward-fails":
			forwardFail = true
			return nil, 0, store.ErrNotLeader
		case "not-leader-forward-ok":
			forwardFail = false
			return nil, 0, store.ErrNotLeader
		case "other-error":
			pendingFails++
			return nil, 0, errors.New("leadership lost while committing log")
		}
		apply(er)
		return nil, 0, nil
	}
	c.executeFn = func(er *command.ExecuteRequest, addr string, t time.Duration) ([]*command.ExecuteQueryResponse, uint64, error) {
		mu.Lock()
		defer mu.Unlock()
		if forwardFail {
			pendingFails++
			return nil, 0, errors.New("not leader")
		}
		apply(er) // applied by the (remote) leader
		return nil, 0, nil
	}
	svc = New("127.0.0.1:0", m, c, proxy.New(m, c), nil)
	svc.DefaultQueueCap = rn.cap
	svc.DefaultQueueBatchSz = rn.batch
	svc.DefaultQueueTimeout = rn.timeout
	svc.logger.SetOutput(io.Discard)
	if err := svc.Start(); err != nil {
		rep.Note("service start failed: %v", err)
		return nil, nil, false
	}
	defer svc.Close()
	host := fmt.Sprintf("http://%s", svc.Addr().String())
	var reqs []*c23Req
	var rmu sync.Mutex
	var wg sync.WaitGroup
	for cl := 0; cl < rn.clients; cl++ {
		wg.Add(1)
		go func(cl int) {
			defer wg.Done()
			pr := &vfRng{s: rn.seed + uint64(cl)*7919}
			client := &http.Client{Timeout: 120 * time.Second}
			for i := 0; i < rn.perCli; i++ {
				n := 1 + pr.Intn(3)
				if rn.bigReqs && pr.Chance(12) {
					n = 40 + pr.Intn(260) // a large request must stay together too
				}
				rq := &c23Req{client: cl, idx: i, wait: pr.Chance(40)}
				var parts []string
				for k := 0; k < n; k++ {
					id := cl*10000000 + i*1000 + k
					rq.stmts = append(rq.stmts, id)
					parts = append(parts, fmt.Sprintf(`"INSERT INTO t(v) VALUES(%d)"`, id))
				}
				url := host + "/db/execute?queue"
				if rq.wait {
					url += "&wait&timeout=100s"
				}
				resp, err := client.Post(url, "application/json", strings.NewReader("["+strings.Join(parts, ",")+"]"))
				if err != nil {
					rq.status = -1
				} else {
					body, _ := io.ReadAll(resp.Body)
					resp.Body.Close()
					rq.status = resp.StatusCode
					var v struct {
						Seq int64 `json:"sequence_number"`
					}
					_ = json.Unmarshal(body, &v)
					rq.seq = v.Seq
					if rq.wait && resp.StatusCode == 200 {
						mu.Lock()
						for _, s := range rq.stmts {
							if !applied[s] {
								rq.missing++
							}
						}
						mu.Unlock()
					}
				}
				rmu.Lock()
				reqs = append(reqs, rq)
				rmu.Unlock()
				if pr.Chance(25) {
					time.Sleep(time.Duration(pr.Intn(3000)) * time.Microsecond)
				}
			}
		}(cl)
	}
	wg.Wait()
	total := 0
	for _, rq := range reqs {
		if rq.status == 200 {
			total += len(rq.stmts)
		}
	}
	deadline := time.Now().Add(60 * time.Second)
	for time.Now().Before(deadline) {
		mu.Lock()
		n := len(applied)
		mu.Unlock()
		if n >= total {
			break
		}
		time.Sleep(2 * time.Millisecond)
	}
	time.Sleep(5 * time.Millisecond) // a spurious extra apply would show up now
	mu.Lock()
	bs := append([]c23Batch(nil), batches...)
	mu.Unlock()

	replay := map[string]interface{}{"run": runIdx, "seed": vfSeed(), "cap": rn.cap, "batch_size": rn.batch, "timeout_ns": int64(rn.timeout), "clients": rn.clients, "requests_per_client": rn.perCli, "fail_at_calls": fmt.Sprint(rn.failAt)}
	ok = true
	fail := func(sig, detail string) {
		ok = false
		rep.Fail(sig, detail, replay)
	}
	var acc []*c23Req
	for _, rq := range reqs {
		if rq.status != 200 {
			fail("queued-request-rejected", fmt.Sprintf("client %d request %d got status %d", rq.client, rq.idx, rq.status))
			continue
		}
		acc = append(acc, rq)
		if rq.missing > 0 {
			fail("wait-returned-before-apply", fmt.Sprintf("client %d request %d (wait) got 200 while %d of its %d statements had not been applied", rq.client, rq.idx, rq.missing, len(rq.stmts)))
		}
	}
	sort.Slice(acc, func(i, j int) bool { return acc[i].seq < acc[j].seq })
	for i := 1; i < len(acc); i++ {
		if acc[i].seq == acc[i-1].seq {
			fail("duplicate-sequence-number", fmt.Sprint(acc[i].seq))
		}
	}
	var want, got []int
	for _, rq := range acc {
		want = append(want, rq.stmts...)
	}
	for _, b := range bs {
		got = append(got, b.stmts...)
	}
	if c23Ints(want) != c23Ints(got) {
		// classify
		wm := map[int]int{}
		for _, x := range got {
			wm[x]++
		}
		dropped, dup := 0, 0
		for _, x := range want {
			if wm[x] == 0 {
				dropped++
			} else if wm[x] > 1 {
				dup++
			}
		}
		switch {
		case dropped > 0:
			fail("accepted-statements-dropped", fmt.Sprintf("%d accepted statements were never applied (accepted %s, applied %s)", dropped, c23Ints(want), c23Ints(got)))
		case dup > 0:
			fail("statements-applied-twice", fmt.Sprintf("%d statements applied more than once", dup))
		default:
			fail("applied-out-of-acceptance-order", fmt.Sprintf("accepted order %s, applied order %s", c23Ints(want), c23Ints(got)))
		}
	}
	if !ok {
		return nil, nil, false
	}
	// model schedule from the observation
	ops = []string{fmt.Sprintf("new %d %d %d", rn.cap, rn.batch, int64(rn.timeout))}
	out = []string{"ok"}
	ri := 0
	base := acc[0].seq - 1
	var closed []int
	totalFails := 0
	for _, b := range bs {
		n := 0
		remaining := len(b.stmts)
		for remaining > 0 && ri < len(acc) {
			rq := acc[ri]
			ftok := "-"
			if rq.wait {
				ftok = strconv.Itoa(ri)
				closed = append(closed, ri)
			}
			ops = append(ops, fmt.Sprintf("write %s %s", c23Ints(rq.stmts), ftok), "recv")
			out = append(out, strconv.FormatInt(rq.seq-base, 10), "ok")
			remaining -= len(rq.stmts)
			ri++
			n++
		}
		if n != rn.batch {
			ops = append(ops, "fire")
			out = append(out, "ok")
		}
		ops = append(ops, "send", "take")
		out = append(out, "ok", "ok")
		for k := 0; k < b.fails; k++ {
			ops = append(ops, "execfail")
			out = append(out, "ok")
		}
		totalFails += b.fails
		ops = append(ops, "execok")
		out = append(out, "ok")
	}
	var ab []string
	for _, b := range bs {
		ab = append(ab, c23Ints(b.stmts))
	}
	ops = append(ops, "applied", "closedflush", "failed", "lastseq")
	out = append(out, strings.Join(ab, "|"), c23Ints(closed), strconv.Itoa(totalFails), strconv.FormatInt(atomic.LoadInt64(&svc.seqNum)-base, 10))
	sizes := map[int]bool{}
	for _, b := range bs {
		sizes[len(b.stmts)] = true
	}
	rep.Case(strings.Join(ab, "|"), len(bs) >= 2 && len(sizes) >= 2)
	rep.CountN("requests", len(acc))
	rep.CountN("batches-applied", len(bs))
	rep.CountN("execute-failures-injected", totalFails)
	return ops, out, true
}

func TestVerifC23(t *testing.T) {
	rep := vfNewReport("C23", "real http.Service with a scripted mock store: 2-4 concurrent clients x 6-14 queued requests of 1-3 uniquely numbered statements (40% with wait), queue capacity 4-32, batch size 1-6, timeout 3-15 ms, up to 3 injected Execute failures per service and one service with an outage of 5 consecutive failures (ErrLeaderNotFound, ErrNotLeader with failing or succeeding forward, other error); a third of the services also get requests of 40-300 statements; non-trivial when at least two batches of different sizes were applied")
	defer rep.Write()
	r := vfNewRng(23)
	n := vfScale(8, 600)
	par := 8
	kinds := []string{"leader-not-found", "not-leader-forward-fails", "not-leader-forward-ok", "other-error"}
	var mu sync.Mutex
	var allOps, allImpl [][]string
	sem := make(chan struct{}, par)
	var wg sync.WaitGroup
	for i := 0; i < n; i++ {
		rn := c23Run{cap: 4 + r.Intn(29), batch: 1 + r.Intn(6), timeout: time.Duration(3+r.Intn(13)) * time.Millisecond,
			clients: 2 + r.Intn(3), perCli: 6 + r.Intn(9), failAt: map[int]string{}, seed: r.U64()}
		nf := r.Intn(4)
		if i%4 == 0 {
			nf = 0
		}
		rn.bigReqs = i%3 == 1
		at := 1 + r.Intn(4)
		longBurst := i == 1 || (vfThorough() && i%20 == 1)
		if longBurst {
			nf = 5 // one long outage: the same batch must be retried until it succeeds
		}
		for k := 0; k < nf; k++ {
			rn.failAt[at] = r.Pick(kinds)
			if longBurst {
				rn.failAt[at] = kinds[k%2] // never a forward that succeeds
			}
			if longBurst || r.Chance(60) {
				at++ // burst
			} else {
				at += 2 + r.Intn(4)
			}
		}
		wg.Add(1)
		sem <- struct{}{}
		go func(i int, rn c23Run) {
			defer wg.Done()
			defer func() { <-sem }()
			ops, out, ok := c23Do(rep, rn, i)
			if ok {
				mu.Lock()
				allOps = append(allOps, ops)
				allImpl = append(allImpl, out)
				mu.Unlock()
			}
			rep.Count(fmt.Sprintf("injected-failures=%d", len(rn.failAt)))
			if i == 0 {
				rep.Sample(map[string]interface{}{"cap": rn.cap, "batch_size": rn.batch, "ops": vfTrunc(ops), "impl": vfTrunc(out)})
			}
		}(i, rn)
	}
	wg.Wait()
	rep.vfCompareSegments("queuesvc", allOps, allImpl)
}

/-
Helper lemmas for C35: little-endian length round trip and what feeding a length
prefix / a payload does to the frame reader of Model/Frame.lean.
-/
import RqModel.Model.Frame
namespace RqModel.Frame

theorem leValue_leBytes (k : Nat) : ∀ n, n < 256 ^ k → leValue (leBytes k n) = n := by
  induction k with
  | zero => intro n h; simp at h; subst h; rfl
  | succ k ih =>
    intro n h
    simp only [leBytes, leValue]
    have hdiv : n / 256 < 256 ^ k := by
      rw [Nat.pow_succ] at h
      exact Nat.div_lt_of_lt_mul (by rw [Nat.mul_comm]; exact h)
    rw [ih _ hdiv]
    omega

theorem leBytes_length (k n : Nat) : (leBytes k n).length = k := by
  induction k generalizing n with
  | zero => rfl
  | succ k ih => simp [leBytes, ih]

theorem feedAll_append (cfg : Cfg) (st : RState) (a b : List Nat) :
    feedAll cfg st (a ++ b) = feedAll cfg (feedAll cfg st a) b := by
  simp [feedAll, List.foldl_append]

theorem startPayload_phase (cfg : Cfg) (st : RState) (p : Phase) (sz : Nat) :
    startPayload cfg { st with phase := p } sz = startPayload cfg st sz := by
  unfold startPayload deliver
  split <;> split <;> (try split) <;> rfl

/-- feeding the rest of a length prefix -/
theorem feed_header (cfg : Cfg) (hs : List Nat) : ∀ (st : RState) (got : List Nat),
    st.phase = .header got → hs ≠ [] → got.length + hs.length = cfg.lenSize →
    feedAll cfg st hs =
      startPayload cfg { st with received := st.received + hs.length } (leValue (got ++ hs)) := by
  induction hs with
  | nil => intro st got _ h; exact absurd rfl h
  | cons b r ih =>
    intro st got hp _ hlen
    have hstep : feedAll cfg st (b :: r) = feedAll cfg (feed cfg st b) r := by simp [feedAll]
    rw [hstep]
    cases r with
    | nil =>
      simp only [feedAll, List.foldl_nil]
      unfold feed
      simp only [hp]
      have : ¬ (got ++ [b]).length < cfg.lenSize := by simp at hlen ⊢; omega
      simp only [this, if_false, List.length_singleton]
    | cons c r' =>
      have hlt : (got ++ [b]).length < cfg.lenSize := by simp at hlen ⊢; omega
      have hf : feed cfg st b = { st with received := st.received + 1, phase := .header (got ++ [b]) } := by
        unfold feed
        simp only [hp]
        simp only [hlt, if_true]
      rw [hf]
      rw [ih _ (got ++ [b]) rfl (by simp) (by simp at hlen ⊢; omega)]
      simp only [List.append_assoc, List.singleton_append, List.length_cons]
      rw [← startPayload_phase cfg { st with received := st.received + (r'.length + 1 + 1) } (.header (got ++ [b]))]
      congr 1
      simp only [RState.mk.injEq, true_and]
      constructor <;> (try trivial) <;> omega

/-- feeding the rest of a payload delivers exactly the frame -/
theorem feed_payload (cfg : Cfg) (r : List Nat) : ∀ (st : RState) (need : Nat) (buf : List Nat),
    st.phase = .payload need buf → r ≠ [] → buf.length + r.length = need →
    (feedAll cfg st r).phase = .header [] ∧ (feedAll cfg st r).frames = st.frames ++ [buf ++ r] ∧
    (feedAll cfg st r).cap = 0 ∧ (feedAll cfg st r).received = st.received + r.length := by
  induction r with
  | nil => intro st need buf _ h; exact absurd rfl h
  | cons b r ih =>
    intro st need buf hp _ hlen
    have hstep : feedAll cfg st (b :: r) = feedAll cfg (feed cfg st b) r := by simp [feedAll]
    rw [hstep]
    cases r with
    | nil =>
      simp only [feedAll, List.foldl_nil]
      unfold feed
      simp only [hp]
      have hge : need ≤ buf.length + 1 := by simp at hlen; omega
      simp [hge, deliver]
    | cons c r' =>
      have hlt : ¬ (buf ++ [b]).length ≥ need := by simp at hlen ⊢; omega
      obtain ⟨cap', hf⟩ : ∃ cap', feed cfg st b =
          { st with received := st.received + 1, phase := .payload need (buf ++ [b]), cap := cap' } := by
        unfold feed
        simp only [hp]
        simp only [hlt, if_false]
        exact ⟨_, rfl⟩
      rw [hf]
      obtain ⟨h1, h2, h3, h4⟩ := ih
        { st with received := st.received + 1, phase := .payload need (buf ++ [b]), cap := cap' }
        need (buf ++ [b]) rfl (by simp) (by simp at hlen ⊢; omega)
      refine ⟨h1, ?_, h3, ?_⟩
      · rw [h2]; simp
      · rw [h4]; simp; omega

end RqModel.Frame

/-
Model of the permission enforcement at the two wire surfaces of a node (C18, C35):

* the inter-node protocol: semantics of the statement IR that the translator
  regenerates from `cluster/service.go (*Service).handleConn` on every run
  (`RqModel.Gen.ClusterCmds`): which events (response frames, actions, raw
  streams, nil dereferences, connection closes) one command case produces for
  given payload presence, credentials and outcomes of the opaque conditions;
* the HTTP API: first-match routing over the regenerated `ServeHTTP` switch
  (`RqModel.Gen.HttpRoutes`) followed by the handler's permission guard.

Credentials are decided by `RqModel.Auth.aa` (Model/Auth.lean, C19).
Core Lean only.
-/
import RqModel.Model.Util
import RqModel.Model.Auth
import RqModel.Gen.ClusterCmds
import RqModel.Gen.HttpRoutes
namespace RqModel.Wire
open RqModel.Util
open RqModel.Gen.ClusterCmds

/-! ## inter-node commands -/

/-- the inputs one command case depends on -/
inductive Atom where
  | payloadNil                 -- the command carries no payload of the expected kind
  | field (f : String)         -- boolean payload field (JoinRequest.Voter)
  | perm (p : String)          -- credentialStore.AA(user, password, p) (true when no store is configured)
  | other (n : Nat)            -- outcome of the n-th other condition (err != nil, channel ready, …)
deriving DecidableEq, Repr

abbrev Env := Atom → Bool

/-- observable events of one command case, in order -/
inductive Ev where
  | resp (err : Bool)          -- a length-prefixed response frame, with/without Error set
  | action (name : String)     -- a call into the database / manager / a channel send
  | actionNilPayload (name : String) -- such a call handed a nil payload
  | stream (name : String)     -- the action writes raw bytes to the connection
  | crash                      -- nil payload dereferenced in handleConn (panic: the process dies)
  | close
  | unknown                    -- a statement the translator did not recognise
deriving DecidableEq, Repr

structure St where
  errSet : Bool := false
  halted : Bool := false
  trace  : List Ev := []
deriving DecidableEq, Repr

/-- `none` = evaluating the condition dereferences a nil payload. `&&`/`||` short-circuit. -/
def evalB (env : Env) (errSet : Bool) : BExp → Option Bool
  | .payloadNil => some (env .payloadNil)
  | .payloadField f => if env .payloadNil then none else some (env (.field f))
  | .perm p => some (env (.perm p))
  | .permAll ps => some (ps.all fun p => env (.perm p))
  | .respErrSet => some errSet
  | .other n => some (env (.other n))
  | .not a => (evalB env errSet a).map (!·)
  | .and a b =>
    match evalB env errSet a with
    | none => none
    | some false => some false
    | some true => evalB env errSet b
  | .or a b =>
    match evalB env errSet a with
    | none => none
    | some true => some true
    | some false => evalB env errSet b

def emit (st : St) (e : Ev) : St := { st with trace := st.trace ++ [e] }
def halt (st : St) : St := { st with halted := true }

def run (env : Env) : Stmt → St → St
  | .skip, st => st
  | .seq a b, st =>
    let s1 := run env a st
    if s1.halted then s1 else run env b s1
  | .ite c t e, st =>
    match evalB env st.errSet c with
    | none => halt (emit st .crash)
    | some true => run env t st
    | some false => run env e st
  | .setErr, st => { st with errSet := true }
  | .action name uses toConn, st =>
    let st := if uses && env .payloadNil then emit st (.actionNilPayload name) else emit st (.action name)
    if toConn then emit st (.stream name) else st
  | .derefPayload, st => if env .payloadNil then halt (emit st .crash) else st
  | .writeResp, st => emit st (.resp st.errSet)
  | .closeConn, st => emit st .close
  | .ret, st => halt (emit st .close)
  | .cont, st => halt st
  | .unknown _, st => emit st .unknown

/-- events of a whole command case -/
def runCmd (env : Env) (body : Stmt) : List Ev := (run env body {}).trace

/-! ### atoms a condition / statement depends on -/

def atomsB : BExp → List Atom
  | .payloadNil => [.payloadNil]
  | .payloadField f => [.payloadNil, .field f]
  | .perm p => [.perm p]
  | .permAll ps => ps.map .perm
  | .respErrSet => []
  | .other n => [.other n]
  | .not a => atomsB a
  | .and a b => atomsB a ++ atomsB b
  | .or a b => atomsB a ++ atomsB b

def atomsS : Stmt → List Atom
  | .seq a b => atomsS a ++ atomsS b
  | .ite c t e => atomsB c ++ (atomsS t ++ atomsS e)
  | .action _ _ _ => [.payloadNil]
  | .derefPayload => [.payloadNil]
  | _ => []

def dedup : List Atom → List Atom
  | [] => []
  | a :: as => if (dedup as).contains a then dedup as else a :: dedup as

def subsets {α} : List α → List (List α)
  | [] => [[]]
  | a :: as => subsets as ++ (subsets as).map (a :: ·)

/-- the environment in which exactly the atoms of `ts` are true -/
def valOf (ts : List Atom) : Env := fun a => ts.contains a

/-! ### what must hold of a refused request -/

/-- The required authorisation of a command, as a condition over `perm`/`payloadField`
atoms. A request is authorised when it evaluates to `some true` (a nil payload is
never authorised for a requirement that reads the payload). -/
def authorised (env : Env) (req : BExp) : Bool := evalB env false req == some true

/-- events allowed when the request is refused: response frames carrying an error,
and closing the connection — no action, no raw stream, no crash. -/
def refusalEvent : Ev → Bool
  | .resp true => true
  | .close => true
  | _ => false

def countResp : List Ev → Nat
  | [] => 0
  | .resp _ :: r => countResp r + 1
  | _ :: r => countResp r

/-- refused: nothing but (at most one) error frame and a close -/
def refusedOK (tr : List Ev) : Bool := tr.all refusalEvent && countResp tr ≤ 1

/-- no nil dereference and no action handed a nil payload -/
def nilSafeEvent : Ev → Bool
  | .crash => false
  | .actionNilPayload _ => false
  | .unknown => false
  | _ => true

def nilSafe (tr : List Ev) : Bool := tr.all nilSafeEvent

/-- decision procedure: over every assignment of the atoms the case and the
requirement mention, a request that is not authorised leaves a refusal trace -/
def checkRefused (req : BExp) (body : Stmt) : Bool :=
  (subsets (dedup (atomsB req ++ atomsS body))).all fun ts =>
    authorised (valOf ts) req || refusedOK (runCmd (valOf ts) body)

/-- decision procedure: with a nil payload nothing is dereferenced, under every
assignment of the other atoms -/
def checkNilSafe (body : Stmt) : Bool :=
  (subsets (dedup (.payloadNil :: atomsS body))).all fun ts =>
    !(valOf ts .payloadNil) || nilSafe (runCmd (valOf ts) body)

/-- actions that only read node metadata -/
def readOnlyActions : List String := ["mgr.CommitIndex", "mgr.LeaderAddr"]

/-- no state-changing action, no raw stream, no crash -/
def noMutationEvent : Ev → Bool
  | .action n => readOnlyActions.contains n
  | .actionNilPayload _ => false
  | .stream _ => false
  | .crash => false
  | .unknown => false
  | _ => true

def noMutation (tr : List Ev) : Bool := tr.all noMutationEvent

def grantsNothing (ts : List Atom) : Bool :=
  ts.all fun a => match a with | .perm _ => false | _ => true

/-- decision procedure: under every assignment in which NO permission check
passes, the case changes no state -/
def checkNoPermNoMutation (body : Stmt) : Bool :=
  (subsets (dedup (atomsS body))).all fun ts =>
    !grantsNothing ts || noMutation (runCmd (valOf ts) body)

/-! ### expectation: command → documented permission(s)

`none` = the command is public by design (node meta for discovery; the retired
LOAD_CHUNK which only answers "unsupported"; the highwater-mark broadcast, for
which rqlite defines no permission). -/
def joinReq : BExp :=
  .or (.and (.payloadField "Voter") (.perm "join"))
      (.and (.not (.payloadField "Voter")) (.or (.perm "join-read-only") (.perm "join-read-replica")))

def required : List (String × Option BExp) := [
  ("GET_NODE_META", none),
  ("EXECUTE", some (.perm "execute")),
  ("QUERY", some (.perm "query")),
  ("REQUEST", some (.permAll ["query", "execute"])),
  ("BACKUP", some (.perm "backup")),
  ("BACKUP_STREAM", some (.perm "backup")),
  ("LOAD", some (.perm "load")),
  ("LOAD_CHUNK", none),
  ("REMOVE_NODE", some (.perm "remove")),
  ("NOTIFY", some (.perm "join")),
  ("JOIN", some joinReq),
  ("STEPDOWN", some (.perm "leader-ops")),
  ("HIGHWATER_MARK_UPDATE", none)]

def requiredOf (name : String) : Option (Option BExp) := Auth.lookup required name

def findCmd (name : String) : Option Cmd := cmds.find? (fun c => c.name == name)

/-- environment of a concrete request against a concrete credential store
(`store = none`: no store configured, every check passes) -/
def envOf (store : Option Auth.Store) (u p : String) (payloadNil voter : Bool) (oq : Nat → Bool) : Env
  | .payloadNil => payloadNil
  | .field _ => voter
  | .perm perm => match store with
    | none => true
    | some s => Auth.aa s u p perm
  | .other n => oq n

/-! ## HTTP -/
open RqModel.Gen.HttpRoutes in
def routeMatches (r : Route) (path : String) : Bool :=
  r.isDefault || r.exact.contains path || r.prefixes.any (fun p => p.isPrefixOf path)

open RqModel.Gen.HttpRoutes in
def dispatch (rs : List Route) (path : String) : Option Route := rs.find? (routeMatches · path)

inductive HResp where
  | options200 | redirect | status (code : String) | unauthorized401
  | handled (handler : String)     -- the handler body past its guard runs
  | noRoute | noHandler (name : String) | unguarded (name : String)
deriving DecidableEq, Repr

open RqModel.Gen.HttpRoutes in
def preOutcome (path : String) : List Pre → Option HResp
  | [] => none
  | .stat :: r => preOutcome path r
  | .redirect :: _ => some .redirect
  | .redirectIfExact p :: r => if path == p then some .redirect else preOutcome path r
  | .status c :: r => match preOutcome path r with
    | some x => some x
    | none => some (.status c)
  | .other _ :: r => preOutcome path r

open RqModel.Gen.HttpRoutes in
def guardPasses (authz : String → Bool) (h : Handler) : Option Bool :=
  match h.guardAll with
  | none => none
  | some true => some (h.perms.all authz)
  | some false => some (h.perms.any authz)

open RqModel.Gen.HttpRoutes in
/-- outcome of ServeHTTP for a non-OPTIONS request with well-formed query parameters -/
def serve (rs : List Route) (hs : List Handler) (authz : String → Bool) (path : String) : HResp :=
  match dispatch rs path with
  | none => .noRoute
  | some r =>
    match preOutcome path r.pre with
    | some x => x
    | none =>
      if r.handler == "" then .noRoute else
      match hs.find? (fun h => h.name == r.handler) with
      | none => .noHandler r.handler
      | some h =>
        match guardPasses authz h with
        | none => .unguarded h.name
        | some true => .handled h.name
        | some false => .unauthorized401

/-- expectation: handler of a documented endpoint → (all of?, permissions) -/
def expectedHttp : List (String × Bool × List String) := [
  ("handleUI", false, ["ui"]),
  ("handleExecute", false, ["execute"]),
  ("handleQuery", false, ["query"]),
  ("handleRequest", true, ["query", "execute"]),
  ("handleBackup", false, ["backup"]),
  ("handleLoad", false, ["load"]),
  ("handleSQLAnalyze", false, ["query"]),
  ("handleBoot", false, ["load"]),
  ("handleSnapshot", false, ["snapshot"]),
  ("handleReap", false, ["snapshot"]),
  ("handleRemove", false, ["remove"]),
  ("handleStatus", false, ["status"]),
  ("handleNodes", false, ["status"]),
  ("handleLeader", false, ["leader-ops"]),
  ("handleReadyz", false, ["ready"]),
  ("handleLicenses", false, ["status"]),
  ("handleExpvar", false, ["status"]),
  ("handlePprof", false, ["status"])]

/-- expectation: path of the documented API → handler -/
def expectedRoutes : List (String × String) := [
  ("/console/", "handleUI"), ("/db/execute", "handleExecute"), ("/db/query", "handleQuery"),
  ("/db/request", "handleRequest"), ("/db/backup", "handleBackup"), ("/db/load", "handleLoad"),
  ("/db/sql", "handleSQLAnalyze"), ("/boot", "handleBoot"), ("/snapshot", "handleSnapshot"),
  ("/reap", "handleReap"), ("/remove", "handleRemove"), ("/status", "handleStatus"),
  ("/nodes", "handleNodes"), ("/leader", "handleLeader"), ("/readyz", "handleReadyz"),
  ("/licenses", "handleLicenses"), ("/debug/vars", "handleExpvar"), ("/debug/pprof", "handlePprof")]

def expectedSat (authz : String → Bool) (e : Bool × List String) : Bool :=
  if e.1 then e.2.all authz else e.2.any authz

/-! ## line protocol
`reset` → `ok` (no credential store configured)
`cred <user> <pass> <perm,perm|!>` → `ok` (adds an entry; the first `cred` after `reset` configures a store)
`emptystore` → `ok` (a configured store without entries)
`cmd <NAME> <nil|set> <voter:0|1> <user> <pass> <true-condition-indices|->` → events, e.g. `resp-err` / `action:db.Execute,resp-ok`
`http <path> <user> <pass>` → `401` | `handled:<name>` | `redirect` | `status:<code>` | …
-/

structure DState where
  store : Option Auth.Store := none

def evStr : Ev → String
  | .resp true => "resp-err"
  | .resp false => "resp-ok"
  | .action n => "action:" ++ n
  | .actionNilPayload n => "action-nil:" ++ n
  | .stream n => "stream:" ++ n
  | .crash => "crash"
  | .close => "close"
  | .unknown => "unknown"

def hrespStr : HResp → String
  | .options200 => "200-options"
  | .redirect => "redirect"
  | .status c => "status:" ++ c
  | .unauthorized401 => "401"
  | .handled h => "handled:" ++ h
  | .noRoute => "no-route"
  | .noHandler n => "no-handler:" ++ n
  | .unguarded n => "unguarded:" ++ n

def step (d : DState) (line : String) : DState × String :=
  match words line with
  | ["reset"] => ({}, "ok")
  | ["emptystore"] => ({ store := some {} }, "ok")
  | ["cred", u, p, ps] =>
    match tokString u, tokString p, Auth.permsTok ps with
    | some u, some p, some (some ps) =>
      ({ store := some (Auth.put (d.store.getD {}) ⟨u, p, ps⟩) }, "ok")
    | _, _, _ => (d, "bad-op")
  | ["cmd", name, pl, voter, u, p, oq] =>
    match findCmd name, tokString u, tokString p, natList oq with
    | some c, some u, some p, some trues =>
      if (pl != "nil" && pl != "set") || (voter != "0" && voter != "1") then (d, "bad-op") else
      let env := envOf d.store u p (pl == "nil") (voter == "1") (fun n => trues.contains n)
      let tr := runCmd env c.body
      (d, if tr.isEmpty then "-" else joinWith "," (tr.map evStr))
    | _, _, _, _ => (d, "bad-op")
  | ["http", path, u, p] =>
    match tokString path, tokString u, tokString p with
    | some path, some u, some p =>
      let authz : String → Bool := fun perm => match d.store with
        | none => true
        | some s => Auth.aa s u p perm
      (d, hrespStr (serve RqModel.Gen.HttpRoutes.routes RqModel.Gen.HttpRoutes.handlers authz path))
    | _, _, _ => (d, "bad-op")
  | _ => (d, "bad-op")

def init : DState := {}

end RqModel.Wire
--! driver: wire RqModel.Wire

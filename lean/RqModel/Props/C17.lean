/-
C17  Reads never modify data; databases change only through the log.

Property theorems only. Model: RqModel/Model/Routing.lean (which connection each path of
db.DB / Store uses, what a multi-statement text does there), tied to db/db.go and
store/store.go by the C17 correspondence runs (db level and live store level) and by the
regenerated facts RqModel/Gen/Mutators.lean (call sites, pools, DSN options).

The unified request has a recorded defect (known_findings.d/C17.json): the full statement is
kept visible as `request_readonly_texts_change_nothing_full`, refuted by witnesses, and proved
under the explicit exclusion.
-/
import RqModel.Model.Routing
import RqModel.Gen.Mutators
namespace C17
open RqModel.Routing

/-! ### the query endpoint -/

/-- No query-endpoint request, at any consistency level, changes the database: whatever the
texts contain (several statements in one text, writes anywhere in them). -/
theorem query_endpoint_never_modifies (lv : Level) (db : Db) (texts : List Text) :
    (storeQuery lv db texts).db = db := rfl

/-- … and a text whose executed statement is a write is answered with an error -/
theorem query_endpoint_rejects_writes (lv : Level) (db : Db) (t : Text) (n : Nat)
    (h : lastStmt t = some (.w n)) (hne : t ≠ []) : (storeQuery lv db [t]).errs = [true] := by
  simp [storeQuery, dbQuery, hne, runROq, h, stmtReadOnly]

example : storeQuery .strong [7] [[.r, .w 1], [.w 2]] = ⟨[7], [true, true]⟩ := by decide

/-! ### the unified endpoint -/

def writesOf : Text → List Nat
  | [] => []
  | .w n :: rest => n :: writesOf rest
  | _ :: rest => writesOf rest

/-- the effect tokens of the texts the request does NOT treat as read-only -/
def rwWrites : List Text → List Nat
  | [] => []
  | t :: rest => (if classify t = some false then writesOf t else []) ++ rwWrites rest

/-- THE FULL STATEMENT (false of the code as it is): texts a unified request treats as read-only
change nothing - the database afterwards is the database before plus the writes of the texts
treated as read-write, at every level. -/
def request_readonly_texts_change_nothing_full : Prop :=
  ∀ (lv : Level) (db : Db) (texts : List Text), (storeRequest lv db texts).db = db ++ rwWrites texts

/-- the recorded failing inputs: a text whose FIRST statement is read-only (so the whole text is
treated as read-only) and whose LAST statement is a write -/
def readOnlyHeadWritingTail (t : Text) : Bool :=
  classify t == some true && (match lastStmt t with | some (.w _) => true | _ => false)

theorem runRWexec_eq (db : Db) (t : Text) : runRWexec db t = db ++ writesOf t := by
  induction t generalizing db with
  | nil => simp [runRWexec, writesOf]
  | cons s rest ih =>
    cases s <;> simp [runRWexec, writesOf, ih, List.append_assoc]

theorem requestText_eq (db : Db) (t : Text) (h : readOnlyHeadWritingTail t = false) :
    requestText db t = db ++ (if classify t = some false then writesOf t else []) := by
  unfold requestText
  cases hc : classify t with
  | none => simp
  | some b =>
    cases b
    · simp [runRWexec_eq]
    · simp only [readOnlyHeadWritingTail, hc, beq_self_eq_true, Bool.true_and] at h
      simp only [runRWq]
      split <;> simp_all

theorem foldl_requestText (db : Db) (texts : List Text)
    (h : ∀ t ∈ texts, readOnlyHeadWritingTail t = false) :
    texts.foldl requestText db = db ++ rwWrites texts := by
  induction texts generalizing db with
  | nil => simp [rwWrites]
  | cons t rest ih =>
    simp only [List.foldl_cons, rwWrites]
    rw [requestText_eq db t (h t (by simp)), ih _ (fun x hx => h x (by simp [hx]))]
    simp [List.append_assoc]

theorem rwWrites_of_nRW_zero (texts : List Text) (h : nRW texts = 0) : rwWrites texts = [] := by
  induction texts with
  | nil => rfl
  | cons t rest ih =>
    unfold nRW at h
    simp only [List.filter_cons] at h
    by_cases hc : (classify t == some false) = true
    · simp [hc] at h
    · simp only [hc, Bool.false_eq_true, if_false] at h
      have hc' : ¬ classify t = some false := by simpa using hc
      simp [rwWrites, hc', ih (by unfold nRW; exact h)]

/-- Under the exclusion, texts a unified request treats as read-only change nothing, at every
consistency level and for every mix with read-write texts. -/
theorem request_readonly_texts_change_nothing_partial (lv : Level) (db : Db) (texts : List Text)
    (h : ∀ t ∈ texts, readOnlyHeadWritingTail t = false) :
    (storeRequest lv db texts).db = db ++ rwWrites texts := by
  unfold storeRequest
  split
  · rename_i hl
    simp only [Bool.and_eq_true, beq_iff_eq] at hl
    simp [dbQuery, rwWrites_of_nRW_zero texts hl.1]
  · simp [dbRequest, foldl_requestText db texts h]

/-- When no text is read-write and the level is not strong, the request runs on the read-only
pool: even an excluded text changes nothing there (it is answered with an error). -/
theorem ro_classified_runs_on_ro_capable_conn (lv : Level) (db : Db) (texts : List Text)
    (h0 : nRW texts = 0) (hl : lv ≠ .strong) :
    storeRequest lv db texts = dbQuery db texts ∧ (storeRequest lv db texts).db = db := by
  have : (nRW texts == 0 && lv != .strong) = true := by simp [h0, hl]
  simp [storeRequest, this, dbQuery]

/-- witnesses: level strong, and alongside a write at level weak -/
theorem request_strong_witness :
    (storeRequest .strong [] [[.r, .w 1]]).db = [1] ∧ rwWrites [[.r, .w 1]] = [] := by decide

theorem request_alongside_write_witness :
    (storeRequest .weak [] [[.w 1], [.r, .w 2]]).db = [1, 2] ∧ rwWrites [[.w 1], [.r, .w 2]] = [1] := by decide

theorem request_readonly_texts_change_nothing_full_is_false :
    ¬ request_readonly_texts_change_nothing_full := by
  intro h
  have := h .strong [] [[.r, .w 1]]
  revert this
  decide

example : readOnlyHeadWritingTail [.r, .w 1] = true ∧ readOnlyHeadWritingTail [.r, .w 1, .r] = false ∧
    readOnlyHeadWritingTail [.w 1, .r] = false := by decide

/-! ### the database changes only through apply, restore, boot and load (regenerated facts) -/

open RqModel.Gen.Mutators

/-- where package store may call a database-mutating method or the command processor, and why -/
def allowedSites : List (String × String × String) :=
  [ ("command_processor.go", "Process", "applying a committed log entry (execute, request, load, load-chunk)"),
    ("store.go", "fsmApply", "applying a committed log entry"),
    ("state.go", "recoverNode", "replaying committed log entries into a fresh database during manual recovery"),
    ("store.go", "fsmRestore", "installing a snapshot"),
    ("store.go", "ReadFrom", "explicit boot"),
    ("store.go", "Vacuum", "maintenance: VACUUM keeps the logical content"),
    ("store.go", "doAutoOptimize", "maintenance: PRAGMA optimize keeps the logical content") ]

/-- Every call site in package store of a method that can change the database (Execute, Request,
Swap, Vacuum, Optimize and their variants, on `s.db` / `db`) or of the command processor lies in
one of the functions above: applying committed log entries, installing a snapshot, an explicit
boot/load, or content-preserving maintenance. Regenerated from the sources on every run. -/
theorem db_changes_only_via :
    storeSites.all (fun s => allowedSites.any fun a => a.1 == s.1 && a.2.1 == s.2.1) = true := by
  decide

/-- http/ and cluster/ touch package db only for pure helpers - they reach the database through
the Store -/
theorem outside_packages_do_not_open_the_database :
    outsideDbCalls.all (fun s => ["ParseHex", "IsValidSQLiteData", "SQLiteHeaderSize"].contains s.2.2) = true := by
  decide

/-- the model's connection assignment is the code's: Query and StmtReadOnly take a connection from
the read-only pool only, Execute and Request from the read-write handle only; a read-only DSN
carries mode=ro and query_only -/
theorem connection_pools :
    dbConnUse = [("QueryWithContext", false, true), ("ExecuteWithContext", true, false),
                 ("RequestWithContext", true, false), ("StmtReadOnly", false, true)] ∧
    roDSN = ["mode=ro", "_query_only=true"] := by decide

end C17

/-
Progress of the queue LTS in safety form (RqModel/Model/Queue.lean): a measure
that every loop/consumer step decreases, the scheduler `drain` that runs those
steps until none is enabled, and what holds in the state it reaches.
Used by Props/C24.
-/
import RqModel.Lemmas.Queue
namespace RqModel.Queue

/-- progress measure: how far the in-flight material is from the consumer -/
def mu (s : S) : Nat :=
  4 * s.batchCh.length + (if s.qObjs = [] then 0 else 3) +
  (if s.sending.isSome then 2 else 0) + (if s.sendCh.isSome then 1 else 0)

/-- fields the loop/consumer steps leave alone -/
def env (s : S) : Bool × Int × List W := (s.stopped, s.timeout, s.written)

theorem writeFn_mu (s : S) (hs : s.sending = none) :
    mu (writeFn s) + (if s.qObjs = [] then 0 else 1) = mu s ∧
    env (writeFn s) = env s ∧ (writeFn s).timer = s.timer ∧ (writeFn s).qObjs = [] ∧
    (writeFn s).batchCh = s.batchCh := by
  unfold writeFn
  cases hm : merge s.qObjs with
  | none =>
    have := (merge_none _).1 hm
    simp [this]
  | some r =>
    have hne : s.qObjs ≠ [] := (merge_spec _ _ hm).1
    simp [mu, hs, hne, env]
    omega

theorem consume_mu (s s' : S) (h : consume s = some s') :
    mu s' + 1 = mu s ∧ env s' = env s ∧ s'.batchCh = s.batchCh ∧ s'.qObjs = s.qObjs := by
  unfold consume at h
  split at h
  · rename_i r hr
    cases h
    simp [mu, hr, env]
  · cases h

theorem send_mu (s s' : S) (h : send s = some s') :
    mu s' + 1 = mu s ∧ env s' = env s ∧ s'.batchCh = s.batchCh ∧ s'.qObjs = s.qObjs := by
  unfold send at h
  split at h
  · rename_i r h1 h2
    cases h
    simp [mu, h1, h2, env]
  · cases h

/-- the flush marker is the last thing in the channel, or nothing at all is pending before the consumer side -/
def MarkerLast (s : S) : Prop :=
  (∃ pre, s.batchCh = pre ++ [Item.marker]) ∨ (s.qObjs = [] ∧ s.batchCh = [])

theorem recv_mu (s s' : S) (h : recv s = some s') :
    mu s' + 1 ≤ mu s ∧ env s' = env s ∧ (MarkerLast s → MarkerLast s') := by
  unfold recv at h
  split at h
  · cases h
  · rename_i hcond
    have hsend : s.sending = none := by
      cases hx : s.sending with
      | none => rfl
      | some _ => simp [hx] at hcond
    split at h
    · cases h
    · rename_i rest hb
      simp only [Option.some.injEq] at h
      subst h
      obtain ⟨h1, h2, _, h4, h5⟩ := writeFn_mu { s with batchCh := rest, timer := false } hsend
      refine ⟨?_, h2, ?_⟩
      · simp only [mu, hb, List.length_cons, hsend] at h1 ⊢
        split at h1 <;> simp_all <;> omega
      · intro hm
        rcases hm with ⟨pre, hp⟩ | ⟨_, hp⟩
        · rw [hb] at hp
          cases pre with
          | nil =>
            simp only [List.nil_append, List.cons.injEq, true_and] at hp
            right; exact ⟨h4, by rw [h5]; exact hp⟩
          | cons a pre' =>
            simp only [List.cons_append, List.cons.injEq] at hp
            left; exact ⟨pre', by rw [h5]; exact hp.2⟩
        · rw [hb] at hp; cases hp
    · rename_i x rest hb
      have hml : MarkerLast s → ∃ pre', rest = pre' ++ [Item.marker] := by
        intro hm
        rcases hm with ⟨pre, hp⟩ | ⟨_, hp⟩
        · rw [hb] at hp
          cases pre with
          | nil => simp at hp
          | cons a pre' =>
            simp only [List.cons_append, List.cons.injEq] at hp
            exact ⟨pre', hp.2⟩
        · rw [hb] at hp; cases hp
      dsimp only at h
      split at h
      · simp only [Option.some.injEq] at h
        subst h
        obtain ⟨h1, h2, _, _, h5⟩ := writeFn_mu { s with batchCh := rest, qObjs := s.qObjs ++ [x], timer := false } hsend
        refine ⟨?_, h2, fun hm => Or.inl ?_⟩
        · simp only [mu, hb, List.length_cons, hsend] at h1 ⊢
          have : s.qObjs ++ [x] ≠ [] := by simp
          simp only [this, if_false] at h1
          split <;> simp_all <;> omega
        · obtain ⟨pre', hp⟩ := hml hm
          exact ⟨pre', by rw [h5]; exact hp⟩
      · simp only [Option.some.injEq] at h
        subst h
        refine ⟨?_, rfl, fun hm => Or.inl (hml hm)⟩
        simp only [mu, hb, List.length_cons, hsend]
        have : s.qObjs ++ [x] ≠ [] := by simp
        simp only [this, if_false]
        split <;> simp <;> omega

theorem fire_mu (s s' : S) (hinv : Inv s) (h : fire s = some s') :
    mu s' + 1 = mu s ∧ env s' = env s ∧ s'.batchCh = s.batchCh ∧ s'.qObjs = [] := by
  unfold fire at h
  split at h
  · cases h
  · rename_i hcond
    have hsend : s.sending = none := by
      cases hx : s.sending with
      | none => rfl
      | some _ => simp [hx] at hcond
    have htimer : s.timer = true := by
      cases hx : s.timer with
      | true => rfl
      | false => simp [hx] at hcond
    have hne := hinv.timerInv htimer
    simp only [Option.some.injEq] at h
    subst h
    obtain ⟨h1, h2, _, h4, h5⟩ := writeFn_mu { s with timer := false } hsend
    refine ⟨?_, h2, h5, h4⟩
    simp only [hne, if_false] at h1
    simp only [mu] at h1 ⊢
    omega

/-- the loop and the consumer run until nothing more can happen (consumer first) -/
def drain : Nat → S → S
  | 0, s => s
  | fuel + 1, s =>
    match consume s with
    | some s' => drain fuel s'
    | none =>
      match send s with
      | some s' => drain fuel s'
      | none =>
        match recv s with
        | some s' => drain fuel s'
        | none =>
          match fire s with
          | some s' => drain fuel s'
          | none => s

/-- nothing left between the writers and the consumer except possibly un-flushed `qObjs` -/
structure Settled (s : S) : Prop where
  sendCh : s.sendCh = none
  sending : s.sending = none
  batchCh : s.batchCh = []
  timer : s.timer = false

theorem next_of_some (s s' : S) (st : Step) (h : step s st = some s') : next s st = s' := by
  simp [next, h]

theorem drain_spec (fuel : Nat) (s : S) (hr : Reachable s) (hns : s.stopped = false) (hf : mu s ≤ fuel) :
    Reachable (drain fuel s) ∧ env (drain fuel s) = env s ∧ Settled (drain fuel s) ∧
    (MarkerLast s → MarkerLast (drain fuel s)) := by
  induction fuel generalizing s with
  | zero =>
    -- mu s = 0: everything is already empty
    simp only [drain]
    refine ⟨hr, trivial, ?_, fun h => h⟩
    have h0 : mu s = 0 := by omega
    simp only [mu] at h0
    have hb : s.batchCh = [] := List.eq_nil_of_length_eq_zero (by omega)
    have hq : s.qObjs = [] := by
      by_cases hq : s.qObjs = []
      · exact hq
      · simp [hq] at h0
    have hsd : s.sending = none := by
      cases hx : s.sending with
      | none => rfl
      | some _ => simp [hx] at h0
    have hsc : s.sendCh = none := by
      cases hx : s.sendCh with
      | none => rfl
      | some _ => simp [hx] at h0
    refine ⟨hsc, hsd, hb, ?_⟩
    cases ht : s.timer with
    | false => rfl
    | true => exact absurd hq (hr.inv.timerInv ht)
  | succ fuel ih =>
    simp only [drain]
    cases hc : consume s with
    | some s' =>
      simp only
      obtain ⟨h1, h2, h3, h4⟩ := consume_mu s s' hc
      have hr' : Reachable s' := by rw [← next_of_some s s' .consume hc]; exact hr.next _
      have hns' : s'.stopped = false := by
        have := congrArg (·.1) h2; simp only [env] at this; rw [this]; exact hns
      obtain ⟨a, b, c, d⟩ := ih s' hr' hns' (by omega)
      refine ⟨a, b.trans h2, c, fun hm => d ?_⟩
      rcases hm with ⟨pre, hp⟩ | ⟨hq, hb⟩
      · exact Or.inl ⟨pre, by rw [h3]; exact hp⟩
      · exact Or.inr ⟨by rw [h4]; exact hq, by rw [h3]; exact hb⟩
    | none =>
      simp only
      cases hsd : send s with
      | some s' =>
        simp only
        obtain ⟨h1, h2, h3, h4⟩ := send_mu s s' hsd
        have hr' : Reachable s' := by rw [← next_of_some s s' .send hsd]; exact hr.next _
        have hns' : s'.stopped = false := by
          have := congrArg (·.1) h2; simp only [env] at this; rw [this]; exact hns
        obtain ⟨a, b, c, d⟩ := ih s' hr' hns' (by omega)
        refine ⟨a, b.trans h2, c, fun hm => d ?_⟩
        rcases hm with ⟨pre, hp⟩ | ⟨hq, hb⟩
        · exact Or.inl ⟨pre, by rw [h3]; exact hp⟩
        · exact Or.inr ⟨by rw [h4]; exact hq, by rw [h3]; exact hb⟩
      | none =>
        simp only
        cases hrv : recv s with
        | some s' =>
          simp only
          obtain ⟨h1, h2, h3⟩ := recv_mu s s' hrv
          have hr' : Reachable s' := by rw [← next_of_some s s' .recv hrv]; exact hr.next _
          have hns' : s'.stopped = false := by
            have := congrArg (·.1) h2; simp only [env] at this; rw [this]; exact hns
          obtain ⟨a, b, c, d⟩ := ih s' hr' hns' (by omega)
          exact ⟨a, b.trans h2, c, fun hm => d (h3 hm)⟩
        | none =>
          simp only
          cases hfi : fire s with
          | some s' =>
            simp only
            obtain ⟨h1, h2, h3, h4⟩ := fire_mu s s' hr.inv hfi
            have hr' : Reachable s' := by rw [← next_of_some s s' .fire hfi]; exact hr.next _
            have hns' : s'.stopped = false := by
              have := congrArg (·.1) h2; simp only [env] at this; rw [this]; exact hns
            obtain ⟨a, b, c, d⟩ := ih s' hr' hns' (by omega)
            refine ⟨a, b.trans h2, c, fun hm => d ?_⟩
            rcases hm with ⟨pre, hp⟩ | ⟨_, hb⟩
            · exact Or.inl ⟨pre, by rw [h3]; exact hp⟩
            · exact Or.inr ⟨h4, by rw [h3]; exact hb⟩
          | none =>
            simp only
            -- no step is enabled: the state is settled
            have hsc : s.sendCh = none := by
              cases hx : s.sendCh with
              | none => rfl
              | some r => simp [consume, hx] at hc
            have hsg : s.sending = none := by
              cases hx : s.sending with
              | none => rfl
              | some r => simp [send, hx, hsc] at hsd
            have hb : s.batchCh = [] := by
              cases hx : s.batchCh with
              | nil => rfl
              | cons a t =>
                cases a <;> simp [recv, hx, hns, hsg] at hrv
                all_goals (split at hrv <;> cases hrv)
            have ht : s.timer = false := by
              cases hx : s.timer with
              | false => rfl
              | true => simp [fire, hx, hns, hsg] at hfi
            exact ⟨hr, trivial, ⟨hsc, hsg, hb, ht⟩, fun h => h⟩


/-! ### the timer is armed whenever un-flushed writes are waiting (timeout ≠ 0) -/

def Armed (s : S) : Prop := s.stopped = false → s.timeout ≠ 0 → s.qObjs ≠ [] → s.timer = true

theorem writeFn_qObjs (s : S) : (writeFn s).qObjs = [] := by
  unfold writeFn
  cases hm : merge s.qObjs with
  | none => simpa using (merge_none _).1 hm
  | some r => rfl

theorem recv_armed (s s' : S) (ha : Armed s) (h : recv s = some s') : Armed s' := by
  unfold recv at h
  split at h
  · cases h
  · split at h
    · cases h
    · cases h; intro _ _ hq; exact absurd (writeFn_qObjs _) hq
    · rename_i x rest hb
      dsimp only at h
      split at h
      · cases h; intro _ _ hq; exact absurd (writeFn_qObjs _) hq
      · cases h
        intro hs ht _
        simp only at hs ht ⊢
        by_cases h1 : (s.qObjs ++ [x]).length = 1
        · simp [h1, ht]
        · have hne : s.qObjs ≠ [] := by
            intro e; apply h1; simp [e]
          simp only [h1, false_and, if_false]
          exact ha hs ht hne

theorem enqueue_armed (s s1 s' : S) (h1 : Armed s1) (h : enqueue s s1 = some s') : Armed s' := by
  unfold enqueue at h
  split at h
  · cases h; exact h1
  · split at h
    · exact recv_armed _ _ h1 h
    · cases h

theorem step_armed (s s' : S) (st : Step) (ha : Armed s) (h : step s st = some s') : Armed s' := by
  cases st with
  | write o f =>
    simp only [step, write] at h
    split at h
    · cases h
    · unfold enq at h; exact enqueue_armed _ _ _ (by exact ha) h
  | writeLate o f => simp only [step, enq] at h; exact enqueue_armed _ _ _ (by exact ha) h
  | flush => simp only [step, flush] at h; exact enqueue_armed _ _ _ (by exact ha) h
  | recv => exact recv_armed _ _ ha h
  | fire =>
    simp only [step, fire] at h
    split at h
    · cases h
    · cases h; intro _ _ hq; exact absurd (writeFn_qObjs _) hq
  | send =>
    simp only [step, send] at h
    split at h
    · cases h; exact ha
    · cases h
  | consume =>
    simp only [step, consume] at h
    split at h
    · cases h; exact ha
    · cases h
  | closeReq i =>
    simp only [step, closeReq] at h
    split at h
    · cases h; exact ha
    · cases h
  | close => simp only [step, close] at h; cases h; exact ha
  | stop =>
    simp only [step, stop] at h
    split at h
    · cases h; intro hs; simp at hs
    · cases h

theorem Reachable.armed {s : S} (h : Reachable s) : Armed s := by
  obtain ⟨m, b, t, q, steps, rfl⟩ := h
  have : ∀ (steps : List Step) (s : S), Armed s → Armed (Queue.run s steps) := by
    intro steps
    induction steps with
    | nil => intro s h; exact h
    | cons st steps ih =>
      intro s h
      apply ih
      unfold Queue.next
      cases he : step s st with
      | none => exact h
      | some s' => exact step_armed _ _ _ h he
  exact this steps _ (by intro _ _ hq; exact absurd rfl hq)

/-- a `Flush` issued in a settled state is accepted and leaves its marker last -/
theorem flush_settled (s : S) (hr : Reachable s) (hns : s.stopped = false) (hs : Settled s) :
    ∃ s2, flush s = some s2 ∧ Reachable s2 ∧ env s2 = env s ∧ MarkerLast s2 := by
  have key : ∃ s2, flush s = some s2 ∧ env s2 = env s ∧ MarkerLast s2 := by
    unfold flush enqueue
    by_cases hcap : s.batchCh.length < s.maxSize
    · rw [if_pos hcap]
      exact ⟨_, rfl, rfl, Or.inl ⟨s.batchCh, rfl⟩⟩
    · have hm0 : s.maxSize = 0 := by rw [hs.batchCh] at hcap; simp at hcap; exact hcap
      rw [if_neg hcap, if_pos ⟨hm0, hs.batchCh⟩]
      have hrecv : recv { s with batchCh := s.batchCh ++ [Item.marker] } =
          some (writeFn { s with batchCh := [], timer := false }) := by
        simp [recv, hns, hs.sending, hs.batchCh]
      rw [hrecv]
      obtain ⟨_, h2, _, h4, h5⟩ := writeFn_mu { s with batchCh := [], timer := false } hs.sending
      exact ⟨_, rfl, h2, Or.inr ⟨h4, h5⟩⟩
  obtain ⟨s2, h2, he, hm⟩ := key
  refine ⟨s2, h2, ?_, he, hm⟩
  rw [← next_of_some s s2 .flush h2]; exact hr.next _

/-! ### all schedules, not one scheduler -/

/-- the steps of the run loop and of the consumer (no new writes, no Close) -/
inductive LStep where
  | consume | send | recv | fire
deriving Repr, DecidableEq

def lstep (s : S) : LStep → Option S
  | .consume => consume s
  | .send => send s
  | .recv => recv s
  | .fire => fire s

def LStep.toStep : LStep → Step
  | .consume => .consume | .send => .send | .recv => .recv | .fire => .fire

/-- run a schedule of loop/consumer steps, each of which must be enabled when it is taken -/
def runE (s : S) : List LStep → Option S
  | [] => some s
  | st :: rest => (lstep s st).bind (fun s' => runE s' rest)

/-- no loop/consumer step is enabled: the schedule cannot be extended -/
def Quiescent (s : S) : Prop := ∀ st : LStep, lstep s st = none

theorem lstep_spec (s s' : S) (st : LStep) (hr : Reachable s) (h : lstep s st = some s') :
    Reachable s' ∧ mu s' + 1 ≤ mu s ∧ env s' = env s ∧ (MarkerLast s → MarkerLast s') := by
  have hr' : Reachable s' := by
    have : next s st.toStep = s' := by
      cases st <;> exact next_of_some _ _ _ h
    rw [← this]; exact hr.next _
  refine ⟨hr', ?_⟩
  cases st with
  | consume =>
    obtain ⟨h1, h2, h3, h4⟩ := consume_mu s s' h
    refine ⟨by omega, h2, ?_⟩
    rintro (⟨pre, hp⟩ | ⟨hq, hb⟩)
    · exact Or.inl ⟨pre, by rw [h3]; exact hp⟩
    · exact Or.inr ⟨by rw [h4]; exact hq, by rw [h3]; exact hb⟩
  | send =>
    obtain ⟨h1, h2, h3, h4⟩ := send_mu s s' h
    refine ⟨by omega, h2, ?_⟩
    rintro (⟨pre, hp⟩ | ⟨hq, hb⟩)
    · exact Or.inl ⟨pre, by rw [h3]; exact hp⟩
    · exact Or.inr ⟨by rw [h4]; exact hq, by rw [h3]; exact hb⟩
  | recv =>
    obtain ⟨h1, h2, h3⟩ := recv_mu s s' h
    exact ⟨h1, h2, h3⟩
  | fire =>
    obtain ⟨h1, h2, h3, h4⟩ := fire_mu s s' hr.inv h
    refine ⟨by omega, h2, ?_⟩
    rintro (⟨pre, hp⟩ | ⟨_, hb⟩)
    · exact Or.inl ⟨pre, by rw [h3]; exact hp⟩
    · exact Or.inr ⟨h4, by rw [h3]; exact hb⟩

theorem runE_spec (sched : List LStep) (s s' : S) (hr : Reachable s) (h : runE s sched = some s') :
    Reachable s' ∧ mu s' + sched.length ≤ mu s ∧ env s' = env s ∧ (MarkerLast s → MarkerLast s') := by
  induction sched generalizing s with
  | nil => simp only [runE, Option.some.injEq] at h; subst h; exact ⟨hr, by simp, rfl, fun h => h⟩
  | cons st rest ih =>
    simp only [runE] at h
    cases h1 : lstep s st with
    | none => simp [h1] at h
    | some s1 =>
      simp only [h1, Option.bind_some] at h
      obtain ⟨a, b, c, d⟩ := lstep_spec s s1 st hr h1
      obtain ⟨a', b', c', d'⟩ := ih s1 a h
      exact ⟨a', by simp only [List.length_cons]; omega, c'.trans c, fun hm => d' (d hm)⟩

theorem settled_of_quiescent (s : S) (hns : s.stopped = false) (hq : Quiescent s) : Settled s := by
  have hc := hq .consume
  have hsd := hq .send
  have hrv := hq .recv
  have hfi := hq .fire
  simp only [lstep] at hc hsd hrv hfi
  have hsc : s.sendCh = none := by
    cases hx : s.sendCh with
    | none => rfl
    | some r => simp [consume, hx] at hc
  have hsg : s.sending = none := by
    cases hx : s.sending with
    | none => rfl
    | some r => simp [send, hx, hsc] at hsd
  have hb : s.batchCh = [] := by
    cases hx : s.batchCh with
    | nil => rfl
    | cons a t =>
      cases a <;> simp [recv, hx, hns, hsg] at hrv
      all_goals (split at hrv <;> cases hrv)
  have ht : s.timer = false := by
    cases hx : s.timer with
    | false => rfl
    | true => simp [fire, hx, hns, hsg] at hfi
  exact ⟨hsc, hsg, hb, ht⟩

end RqModel.Queue

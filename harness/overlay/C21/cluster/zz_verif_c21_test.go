package cluster

// C21 (part b): relay of a backup through another node. The real cluster.Service (serving
// side, BACKUP_STREAM handler) and the real cluster.Client.Backup (relaying side) talk over
// the package's mux transport; a cutting connection ends the inter-node stream after an
// arbitrary number of bytes (network cut), or the serving node's backup fails after an
// arbitrary number of bytes (it then closes the connection). For every cut position and both
// values of the compress flag the result is compared with the Lean model `backup` (op
// `relay`) and the property is evaluated directly: anything short of the complete backup must
// be an error.

import (
	"bytes"
	"compress/gzip"
	"context"
	"errors"
	"fmt"
	"io"
	"net"
	"sync"
	"testing"
	"time"

	command "github.com/rqlite/rqlite/v10/command/proto"
)

// c21CutConn delivers at most `limit` bytes to the reader, then reports EOF, as a
// connection cut by the network does after the peer's FIN/RST.
type c21CutConn struct {
	net.Conn
	mu    sync.Mutex
	limit int
	got   int
}

func (c *c21CutConn) Read(p []byte) (int, error) {
	c.mu.Lock()
	left := c.limit - c.got
	c.mu.Unlock()
	if left <= 0 {
		return 0, io.EOF
	}
	if len(p) > left {
		p = p[:left]
	}
	n, err := c.Conn.Read(p)
	c.mu.Lock()
	c.got += n
	c.mu.Unlock()
	return n, err
}

type c21CutDialer struct {
	inner Dialer
	limit int
}

func (d *c21CutDialer) Dial(addr string, timeout time.Duration) (net.Conn, error) {
	conn, err := d.inner.Dial(addr, timeout)
	if err != nil {
		return nil, err
	}
	return &c21CutConn{Conn: conn, limit: d.limit}, nil
}

func c21Gzip(b []byte) []byte {
	var buf bytes.Buffer
	zw, _ := gzip.NewWriterLevel(&buf, gzip.BestSpeed)
	zw.Write(b)
	zw.Close()
	return buf.Bytes()
}

type c21Cred struct{ allow bool }

func (c *c21Cred) AA(username, password, perm string) bool { return c.allow }

func TestVerifC21Relay(t *testing.T) {
	rep := vfNewReport("C21", "real cluster.Service BACKUP_STREAM handler + real cluster.Client.Backup over the mux transport: payloads of 0..20000 bytes, compress flag on/off, the inter-node stream cut at every byte position (small payloads) or at strided positions, by the network or by a failure of the serving node's backup after k bytes, and refused requests. A case is non-trivial when the cut lies strictly inside the stream; distinct by (payload size, compress, mode, cut)")
	defer rep.Write()
	r := vfNewRng(2100)

	ln, mux := mustNewMux()
	defer ln.Close()
	defer mux.Close()
	go mux.Serve()
	tn := mux.Listen(1)
	db := mustNewMockDatabase()
	mgr := mustNewMockManager()
	cred := &c21Cred{allow: true}
	s := New(tn, db, mgr, cred)
	if err := s.Open(); err != nil {
		t.Fatalf("open: %v", err)
	}
	defer s.Close()

	// what the serving node's store does: gzip the backup into the connection
	// (store.Backup with br.Compress forced to true), failing after failAfter bytes if >= 0
	// (like store.Backup: a real gzip.Writer over the connection; when the SOURCE fails after
	// srcFail bytes the writer is flushed but not closed — no trailer — and an error returned)
	var payload []byte
	srcFail := -1
	db.backupFn = func(br *command.BackupRequest, dst io.Writer) error {
		if !br.Compress {
			return errors.New("c21: the serving side must force compression")
		}
		zw, err := gzip.NewWriterLevel(dst, gzip.BestSpeed)
		if err != nil {
			return err
		}
		if srcFail >= 0 && srcFail < len(payload) {
			zw.Write(payload[:srcFail])
			zw.Flush()
			return errors.New("c21: scripted source failure on the serving node")
		}
		if _, err := zw.Write(payload); err != nil {
			return err
		}
		return zw.Close()
	}

	validate := "1" // the tree's client checks a compressed stream it passes through (see Gen.Backup)
	sizes := []int{0, 1, 40, 700, 20000}
	var ops, impl []string
	frameLenOK := 8 // 8-byte length prefix + empty CommandBackupResponse
	for _, size := range sizes {
		payload = r.Bytes(size)
		if size >= 700 {
			// compressible content, like a database file
			for i := range payload {
				payload[i] = byte(i % 7)
			}
		}
		gz := c21Gzip(payload)
		total := frameLenOK + len(gz)
		var cuts []int
		if total <= 200 {
			for c := 0; c <= total+1; c++ {
				cuts = append(cuts, c)
			}
		} else {
			n := vfScale(40, 600)
			for i := 0; i < n; i++ {
				cuts = append(cuts, r.Intn(total+1))
			}
			cuts = append(cuts, 0, 7, 8, 9, total-9, total-8, total-1, total, total+1)
		}
		for _, compress := range []bool{false, true} {
			for _, mode := range []string{"network-cut", "serving-node-fails"} {
				for _, cut := range cuts {
					limit := 1 << 30
					srcFail = -1
					effCut := cut
					if mode == "network-cut" {
						limit = cut
					} else {
						// the serving node's source fails after a fraction of the payload
						if cut < frameLenOK || len(payload) == 0 {
							continue
						}
						srcFail = (cut - frameLenOK) * len(payload) / (len(gz) + 1)
						if srcFail >= len(payload) {
							srcFail = len(payload) - 1
						}
					}
					cl := NewClient(&c21CutDialer{inner: mustNewDialer(1, false, false), limit: limit}, 60*time.Second)
					var out bytes.Buffer
					br := &command.BackupRequest{Format: command.BackupRequest_BACKUP_REQUEST_FORMAT_BINARY, Compress: compress}
					err := cl.Backup(context.Background(), br, s.Addr(), NO_CREDS, 60*time.Second, &out)
					want := payload
					if compress {
						want = gz
					}
					var res string
					switch {
					case err != nil:
						res = "error"
					case bytes.Equal(out.Bytes(), want):
						res = "complete"
					case compress && bytes.HasPrefix(gz, out.Bytes()):
						res = fmt.Sprintf("truncated %d", out.Len())
					default:
						res = fmt.Sprintf("wrong-bytes %d", out.Len())
					}
					c := "0"
					if compress {
						c = "1"
					}
					if mode == "network-cut" {
						ops = append(ops, fmt.Sprintf("relay %s %s %d %d 0 %d", validate, c, frameLenOK, len(gz), effCut))
					} else {
						ops = append(ops, fmt.Sprintf("servefail 0 %s %s", validate, c))
						if err == nil {
							res = "ok-partial"
						}
					}
					impl = append(impl, res)
					inside := effCut < total || mode != "network-cut"
					rep.Case(fmt.Sprintf("%d:%v:%s:%d", size, compress, mode, cut), inside)
					rep.Count(fmt.Sprintf("relay:%s:compress=%v:%s", mode, compress, res[:4]))
					if inside && err == nil {
						where := "inside-gzip-stream"
						if effCut <= frameLenOK {
							where = "before-any-backup-byte"
						}
						if mode != "network-cut" {
							where = fmt.Sprintf("source failed after %d of %d payload bytes", srcFail, len(payload))
						}
						rep.Fail(fmt.Sprintf("relay:incomplete-transfer-returned-as-success:compress=%v:%s", compress, mode),
							fmt.Sprintf("payload %d bytes (gzip %d), stream ended after %d of %d bytes (%s): Client.Backup returned nil with %d bytes", size, len(gz), effCut, total, where, out.Len()),
							map[string]interface{}{"payload_bytes": size, "gzip_bytes": len(gz), "compress": compress, "mode": mode, "cut": effCut})
					}
					if !inside && err != nil {
						rep.Fail("relay:complete-transfer-reported-as-error", fmt.Sprintf("compress=%v mode=%s: %v", compress, mode, err), nil)
					}
					if res[:4] == "wron" {
						rep.Fail("relay:wrong-bytes", fmt.Sprintf("compress=%v mode=%s cut=%d", compress, mode, cut), nil)
					}
				}
			}
		}
	}
	// refused request: the response frame carries an error, nothing is streamed
	cred.allow = false
	payload = []byte("secret")
	for _, compress := range []bool{false, true} {
		cl := NewClient(mustNewDialer(1, false, false), 60*time.Second)
		var out bytes.Buffer
		err := cl.Backup(context.Background(), &command.BackupRequest{Compress: compress}, s.Addr(), NO_CREDS, 60*time.Second, &out)
		c := "0"
		if compress {
			c = "1"
		}
		res := "error"
		if err == nil {
			res = "complete"
			rep.Fail("relay:refused-request-returned-as-success", fmt.Sprintf("compress=%v: %d bytes", compress, out.Len()), nil)
		}
		if out.Len() > 0 {
			rep.Fail("relay:bytes-delivered-for-a-refused-request", fmt.Sprintf("%d bytes", out.Len()), nil)
		}
		ops = append(ops, fmt.Sprintf("relay %s %s 20 0 1 20", validate, c))
		impl = append(impl, res)
		rep.Count("relay:refused")
	}
	rep.vfCompare("backup", ops, impl, nil)
}

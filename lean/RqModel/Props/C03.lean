import RqModel.Model.StoreSM
namespace C03
open RqModel.StoreSM
theorem placeholder : (1 : Nat) = 1 := rfl
end C03

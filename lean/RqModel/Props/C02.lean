/-
C02  Writes and linearizable/strong reads form a linearizable history.   (PARTIAL)

What Lean proves is rqlite's logic RELATIVE to `RaftSem` (assumed laws of
hashicorp/raft, a structure of hypotheses — Model/ReadIndex.lean):

* `lin_read_sees_committed` / `lin_read_sees_acked`: the read index taken by
  `waitForLinearizableRead` covers everything committed (hence everything
  acknowledged) before the read was invoked — including the first read of a new
  leader (the strong-read upgrade) — and `deposed_leader_never_serves`;
* `lin_read_reflects_acked`: composed with the typed-log model (LinRead), the
  database state the read is answered from contains every such write;
* `strong_read_linearizable` and the other real-time order facts: operations that go
  through the log are ordered by log index consistently with real time, and
  linearizable reads fit between them;
* `checkWitness_sound`: the executable certificate checker that the live-cluster
  harness runs on every recorded history only accepts linearizable histories.

Tie to the source: `Gen.ReadPath` (step order of waitForLinearizableRead, leader
guards of Execute/Query/Request before raft.Apply, where strongReadTerm is stored).
-/
import RqModel.Model.Linz
import RqModel.Model.ReadIndex
import RqModel.Lemmas.LinRead
import RqModel.Lemmas.Linz
import RqModel.Gen.ReadPath
import RqModel.Expect.ReadPath
namespace C02
open RqModel
open RqModel.Linz
open RqModel.ReadIndex

/-! ## 1. the verified certificate checker -/

theorem rtOk_spec (h : History) (l : List Nat) (m : Nat) (hk : rtOk h l m = true) :
    (∀ b ∈ l, ∀ t, (opAt h b).resp = some t → m ≤ t) ∧
    l.Pairwise (fun a b => ∀ t, (opAt h b).resp = some t → (opAt h a).inv ≤ t) := by
  induction l generalizing m with
  | nil => simp
  | cons i rest ih =>
    simp only [rtOk, Bool.and_eq_true] at hk
    obtain ⟨hhead, hrest⟩ := hk
    obtain ⟨ih1, ih2⟩ := ih _ hrest
    constructor
    · intro b hb t ht
      rcases List.mem_cons.1 hb with rfl | hb
      · rw [ht] at hhead; simpa using hhead
      · have := ih1 b hb t ht
        omega
    · rw [List.pairwise_cons]
      refine ⟨?_, ih2⟩
      intro b hb t ht
      have := ih1 b hb t ht
      omega

/-- **Soundness of the checker**: an accepted order IS a linearization. -/
theorem checkWitness_isLinearization (h : History) (order : List Nat)
    (hc : checkWitness h order = true) : IsLinearization h order := by
  simp only [checkWitness, Bool.and_eq_true, List.all_eq_true, decide_eq_true_eq, Bool.or_eq_true,
    List.mem_range, List.contains_iff_mem] at hc
  obtain ⟨⟨⟨⟨h1, h2⟩, h3⟩, h4⟩, h5⟩ := hc
  refine ⟨h2, h1, ?_, ?_, h5⟩
  · intro i hi hne
    rcases h3 i hi with hn | hm
    · exfalso; apply hne
      cases hr : (opAt h i).resp with
      | none => rfl
      | some t => rw [hr] at hn; simp at hn
    · exact hm
  · have := (rtOk_spec h order 0 h4).2
    refine this.imp ?_
    intro a b hab hpre
    obtain ⟨t, ht, hlt⟩ := hpre
    have := hab t ht
    omega

theorem checkWitness_sound (h : History) (order : List Nat)
    (hc : checkWitness h order = true) : Linearizable h :=
  ⟨order, checkWitness_isLinearization h order hc⟩

/-! ## 2. the read-index protocol, relative to RaftSem -/

theorem steps_le (r : LinReadRun) (E : Exec) (hr : r.Ok E) (i j : Nat) (hij : i ≤ j)
    (hj : j < LinRead.stepNames.length) : r.steps.getD i 0 ≤ r.steps.getD j 0 := by
  have hlen := hr.len
  have hi' : i < r.steps.length := by omega
  have hj' : j < r.steps.length := by omega
  have gi : r.steps.getD i 0 = r.steps[i] := by simp [List.getD, hi']
  have gj : r.steps.getD j 0 = r.steps[j] := by simp [List.getD, hj']
  rw [gi, gj]
  rcases Nat.lt_or_eq_of_le hij with hlt | heq
  · exact (List.pairwise_iff_getElem.1 hr.sorted) i j hi' hj' hlt
  · subst heq; exact Nat.le_refl _

theorem idx_load : stepIdx "s.strongReadTerm.Load" = 0 := by decide
theorem idx_commit : stepIdx "s.raft.CommitIndex" = 3 := by decide
theorem idx_verify : stepIdx "s.VerifyLeader" = 4 := by decide
theorem idx_term : stepIdx "s.raft.CurrentTerm" = 5 := by decide
theorem idx_sub : stepIdx "s.fsmTarget.Subscribe" = 7 := by decide
theorem steps_len : LinRead.stepNames.length = 8 := by decide

/-- the instants of the steps the argument needs, in the order of the source -/
theorem step_times (r : LinReadRun) (E : Exec) (hr : r.Ok E) :
    r.at "s.strongReadTerm.Load" ≤ r.at "s.raft.CommitIndex" ∧
    r.at "s.raft.CommitIndex" ≤ r.at "s.VerifyLeader" ∧
    r.at "s.VerifyLeader" ≤ r.at "s.raft.CurrentTerm" ∧
    r.at "s.raft.CurrentTerm" ≤ r.at "s.fsmTarget.Subscribe" := by
  simp only [LinReadRun.at, idx_load, idx_commit, idx_verify, idx_term, idx_sub]
  have := steps_len
  exact ⟨steps_le r E hr 0 3 (by omega) (by omega), steps_le r E hr 3 4 (by omega) (by omega),
    steps_le r E hr 4 5 (by omega) (by omega), steps_le r E hr 5 7 (by omega) (by omega)⟩

/-- **The read index covers everything committed before the read was invoked.**
For every execution of an abstract cluster satisfying `RaftSem`, every run of
`waitForLinearizableRead` that passed its guards (strong read done in the term that
was read before the call; commit index read; VerifyLeader succeeded; term unchanged
afterwards), and every index `i` that ANY leader of ANY term had committed at an
instant `tc ≤` the client's invocation: `i ≤ readIndex`. -/
theorem lin_read_sees_committed (E : Exec) (sem : RaftSem E) (r : LinReadRun) (hr : r.Ok E)
    (i : Nat) (L T tc : Nat)
    (hc : E.committedBy i L T tc) (hbefore : tc ≤ r.tInv) : i ≤ r.readIndex := by
  obtain ⟨t1, t2, t3, _⟩ := step_times r E hr
  have hrt := hr.term_read
  have hinv := hr.inv_first
  have hcall := hr.term_before_call
  obtain ⟨hv1, hv2⟩ := hr.verify_end
  -- the node's term is readTerm from the moment it was read until the re-check
  have hterm : ∀ t, r.tReadTerm ≤ t → t ≤ r.at "s.raft.CurrentTerm" → E.term r.node t = r.readTerm := by
    intro t h1 h2
    have a := sem.term_mono r.node _ _ h1
    have b := sem.term_mono r.node _ _ h2
    rw [← hrt] at a
    rw [hr.term_unchanged] at b
    omega
  have hT0 := hterm (r.at "s.VerifyLeader") (by omega) (by omega)
  have hT1 := hterm r.tVerifyEnd (by omega) (by omega)
  obtain ⟨hno_later, tl, _, _, hlead⟩ := sem.verify_sound r.node _ _ r.readTerm hr.verified hT0 hT1
  have hle : T ≤ r.readTerm := hno_later i L T tc hc (by omega)
  rw [hr.read_index]
  rcases Nat.lt_or_eq_of_le hle with hlt | heq
  · -- committed in an earlier term: below the strong read this node committed in ITS term
    have hne : r.strongReadTerm ≠ 0 := by rw [← hr.strong_term_eq]; omega
    cases hs : r.stored with
    | none => simp [LinReadRun.strongReadTerm, hs] at hne
    | some s =>
      obtain ⟨sok, snode, tret, hsret, sret⟩ := hr.stored_ok s hs
      have hsrt : s.readTerm = r.readTerm := by
        have := hr.strong_term_eq; simp only [LinReadRun.strongReadTerm, hs] at this; exact this.symm
      obtain ⟨_, _, ⟨ta, ha1, ha2, hal⟩, hown, hcom⟩ := sem.apply_contract s.apply tret (sok.returned tret hsret).1
      -- the entry was appended in the very term that was read
      have hat : s.apply.term = r.readTerm := by
        have e1 := sem.leader_term _ _ _ hal
        have lo := sem.term_mono s.apply.node s.tReadTerm ta (by have := sok.order2; omega)
        have hi := sem.term_mono s.apply.node ta (r.at "s.raft.CurrentTerm") (by omega)
        rw [snode] at lo hi e1
        have e2 : E.term r.node s.tReadTerm = r.readTerm := by
          have := sok.term_read; rw [snode] at this; rw [← this, hsrt]
        rw [hr.term_unchanged] at hi
        omega
      rw [hat, snode] at hown hcom
      have hlt' : i < s.apply.index := sem.leader_completeness i L T tc r.node r.readTerm _ hc hown hlt
      have hci := (sem.committed_by_leader _ _ _ _ hcom).2
      have hm := sem.commit_mono r.node tret (r.at "s.raft.CommitIndex") (by omega)
      omega
  · -- committed in the same term: by this very node (election safety)
    obtain ⟨hl, hci⟩ := sem.committed_by_leader _ _ _ _ hc
    rw [heq] at hl
    have : L = r.node := sem.election_safety _ _ _ _ _ hl hlead
    rw [this] at hci
    have hm := sem.commit_mono r.node tc (r.at "s.raft.CommitIndex") (by omega)
    omega

/-- a linearizable read never misses a write (or strong read) that was acknowledged
before the read began -/
theorem lin_read_sees_acked (E : Exec) (sem : RaftSem E) (r : LinReadRun) (hr : r.Ok E)
    (w : LogOpRun) (hw : w.Ok E) (tr : Nat) (hack : w.ret = some tr) (hbefore : w.tResp < r.tInv) :
    w.apply.index ≤ r.readIndex := by
  obtain ⟨hret, hle⟩ := hw.returned tr hack
  obtain ⟨_, _, _, _, hcom⟩ := sem.apply_contract w.apply tr hret
  exact lin_read_sees_committed E sem r hr _ _ _ _ hcom (by omega)

/-- a deposed leader never serves such a read: if a leader of a LATER term had committed
anything before the read's VerifyLeader was started, no run passes the guards -/
theorem deposed_leader_never_serves (E : Exec) (sem : RaftSem E) (r : LinReadRun)
    (i : Nat) (L T tc : Nat)
    (hc : E.committedBy i L T tc) (hbefore : tc ≤ r.at "s.VerifyLeader") (hlater : r.readTerm < T) :
    ¬ r.Ok E := by
  intro hr
  obtain ⟨t1, t2, t3, _⟩ := step_times r E hr
  obtain ⟨hv1, hv2⟩ := hr.verify_end
  have hterm : ∀ t, r.tReadTerm ≤ t → t ≤ r.at "s.raft.CurrentTerm" → E.term r.node t = r.readTerm := by
    intro t h1 h2
    have a := sem.term_mono r.node _ _ h1
    have b := sem.term_mono r.node _ _ h2
    rw [← hr.term_read] at a
    rw [hr.term_unchanged] at b
    omega
  have hcall := hr.term_before_call
  have hT0 := hterm (r.at "s.VerifyLeader") (by omega) (by omega)
  have hT1 := hterm r.tVerifyEnd (by omega) (by omega)
  have := (sem.verify_sound r.node _ _ r.readTerm hr.verified hT0 hT1).1 i L T tc hc hbefore
  omega

/-- composition with the typed-log model: once the wait has returned, every command entry
at or below the read index — in particular every write acknowledged before the read
began — has been applied to the database the read is answered from -/
theorem lin_read_reflects_acked (E : Exec) (sem : RaftSem E) (r : LinReadRun) (hr : r.Ok E)
    (w : LogOpRun) (hw : w.Ok E) (tr : Nat) (hack : w.ret = some tr) (hbefore : w.tResp < r.tInv)
    (es es1 es2 : List LinRead.Ev) (hno1 : LinRead.NoReopen es1) (hno2 : LinRead.NoReopen es2)
    (hidx : (LinRead.run {} es).commit = r.readIndex)
    (hcmd : (LinRead.run (LinRead.run {} es) es1).typeAt w.apply.index = some (some .command))
    (hwait : LinRead.reached (LinRead.run (LinRead.run (LinRead.run {} es) es1) es2)
        (LinRead.targetAt (LinRead.run (LinRead.run {} es) es1) (LinRead.run {} es).commit) = true) :
    w.apply.index ≤ (LinRead.run (LinRead.run (LinRead.run {} es) es1) es2).handed := by
  have hle := lin_read_sees_acked E sem r hr w hw tr hack hbefore
  have hinv : LinRead.Inv (LinRead.run {} es) := LinRead.inv_run _ es LinRead.inv_init
  exact LinRead.wait_ok_applied _ hinv es1 es2 hno1 hno2 hwait _ (by omega) hcmd

/-! ## 3. real-time order of the operations (the linearization points) -/

/-- **Operations that go through the log** (writes, strong reads, Request): if `a` was
acknowledged before `b` was invoked, `a`'s log index is smaller. Since the FSM applies
command entries in index order, a strong read sees every write acknowledged before it
began and no write invoked after it returned. -/
theorem strong_read_linearizable (E : Exec) (sem : RaftSem E) (a b : LogOpRun)
    (ha : a.Ok E) (hb : b.Ok E) (tr : Nat) (hack : a.ret = some tr) (hbefore : a.tResp < b.tInv) :
    a.apply.index < b.apply.index := by
  obtain ⟨hret, hle⟩ := ha.returned tr hack
  obtain ⟨_, _, _, _, hcom⟩ := sem.apply_contract a.apply tr hret
  exact sem.append_above_committed _ _ _ _ b.apply hcom hb.appended hb.committed
    (by have := hb.order1; have := hb.order2; omega)

/-- a log operation invoked after a linearizable read returned lies above everything the
read observed -/
theorem later_write_not_observed (E : Exec) (sem : RaftSem E) (r : LinReadRun) (hr : r.Ok E)
    (b : LogOpRun) (hb : b.Ok E) (hafter : r.tResp < b.tInv) : r.observed < b.apply.index := by
  have hobs := hr.observed_committed
  obtain ⟨_, hrr⟩ := hr.read_after
  rcases sem.commit_is_committed r.node r.tRead with h0 | ⟨L, T, tc, htc, hc⟩
  · have := sem.index_pos b.apply hb.appended
    omega
  · have := sem.append_above_committed _ _ _ _ b.apply hc hb.appended hb.committed
      (by have := hb.order1; have := hb.order2; omega)
    omega

/-- two linearizable reads, the first returned before the second was invoked: the second
one's read index covers everything the first observed (reads never go backwards) -/
theorem reads_monotone (E : Exec) (sem : RaftSem E) (r1 r2 : LinReadRun) (h1 : r1.Ok E) (h2 : r2.Ok E)
    (hbefore : r1.tResp < r2.tInv) : r1.observed ≤ r2.readIndex := by
  have hobs := h1.observed_committed
  obtain ⟨_, hrr⟩ := h1.read_after
  rcases sem.commit_is_committed r1.node r1.tRead with h0 | ⟨L, T, tc, htc, hc⟩
  · omega
  · have := lin_read_sees_committed E sem r2 h2 _ _ _ _ hc (by omega)
    omega

/-! ## 3b. every history of the model is linearizable -/

theorem idxOf_cons_ne {α} [DecidableEq α] (x a : α) (l : List α) (h : x ≠ a) :
    (x :: l).idxOf a = l.idxOf a + 1 := by
  have : (x == a) = false := by simpa using h
  simp [List.idxOf_cons, this]

theorem idxOf_cons_self {α} [DecidableEq α] (x : α) (l : List α) : (x :: l).idxOf x = 0 := by
  simp [List.idxOf_cons]

theorem idxOf_sorted {α} [DecidableEq α] (l : List α) (f : α → Nat)
    (hs : l.Pairwise (fun a b => f a < f b)) (a b : α) (ha : a ∈ l) (hb : b ∈ l) (hlt : f a < f b) :
    l.idxOf a < l.idxOf b := by
  induction l with
  | nil => simp at ha
  | cons x l ih =>
    rw [List.pairwise_cons] at hs
    by_cases hax : a = x
    · subst hax
      by_cases hbx : b = a
      · subst hbx; omega
      · rw [idxOf_cons_self, idxOf_cons_ne _ _ _ (Ne.symm hbx)]; omega
    · have ha' : a ∈ l := by simpa [hax] using ha
      by_cases hbx : b = x
      · subst hbx
        have := hs.1 a ha'
        omega
      · have hb' : b ∈ l := by simpa [hbx] using hb
        have := ih hs.2 ha' hb'
        rw [idxOf_cons_ne _ _ _ (Ne.symm hax), idxOf_cons_ne _ _ _ (Ne.symm hbx)]
        omega

theorem idxOf_getElem_nodup {α} [DecidableEq α] (l : List α) (hn : l.Nodup) (j : Nat) (hj : j < l.length) :
    l.idxOf l[j] = j := by
  induction l generalizing j with
  | nil => simp at hj
  | cons x l ih =>
    rw [List.nodup_cons] at hn
    cases j with
    | zero => simp [List.idxOf_cons]
    | succ j =>
      have hj' : j < l.length := by simpa using hj
      have hne : x ≠ l[j] := fun e => hn.1 (e ▸ List.getElem_mem hj')
      simp only [List.getElem_cons_succ]
      rw [idxOf_cons_ne _ _ _ hne, ih hn.2 j hj']

theorem nodup_of_sorted {α} (l : List α) (f : α → Nat) (hs : l.Pairwise (fun a b => f a < f b)) : l.Nodup := by
  refine hs.imp ?_
  intro a b h e; subst e; omega

/-- the wait, DERIVED by composing the attached node-level run (LinRead model) with its safety
theorem: every committed log operation at or below the read index has been applied to the
state the read observed -/
theorem read_wait (E : Exec) (h : History) (m : ModelHistory E h) (q : Nat) (r : Nat) (hr : r ∈ m.reads q)
    (a : Nat) (ha : a ∈ m.logOps) (hle : (m.logRun a).apply.index ≤ (m.linRun r).readIndex) :
    (m.logRun a).apply.index ≤ (m.linRun r).observed := by
  obtain ⟨hno1, hno2, hci, hobs, hreach, htyped⟩ := m.wait_ok q r hr
  have hinv : LinRead.Inv (LinRead.run {} (m.waitEs r)) := LinRead.inv_run _ _ LinRead.inv_init
  have hinv1 := LinRead.inv_run _ (m.waitEs1 r) hinv
  rw [← hobs]
  rcases htyped a ha hle with hc | hn
  · exact LinRead.wait_ok_applied _ hinv _ _ hno1 hno2 hreach _ (by omega) hc
  · have h1 := hinv1.compacted_handed _ hn
    have h2 := (LinRead.mono_run _ hinv1 (m.waitEs2 r) hno2).1
    omega

/-- **Every history of the model is linearizable**: a client history that arises from an
execution of an abstract cluster satisfying `RaftSem`, through runs of the rqlite
protocol (`LogOpRun.Ok`, `LinReadRun.Ok`), with the FSM applying the log in order, has a
linearization. A write whose Apply failed or timed out (no response to the client) is part
of `logOps`, hence of the linearization, exactly when its entry was committed.
Assumed conjuncts of `ModelHistory` (not derived): `read_val`, `log_val` (deterministic
FSM/SQLite), the log-typing conjunct of `wait_ok` (Log Matching), `read_pos` (what "observed"
means). Derived: the wait (`read_wait`), all real-time order facts. -/
theorem history_linearizable (E : Exec) (sem : RaftSem E) (h : History) (m : ModelHistory E h) :
    Linearizable h := by
  classical
  let rk : Nat → Nat := fun x => if x ∈ m.logOps then 2 * m.logOps.idxOf x + 2 else 2 * m.pos x + 1
  have hnd : m.logOps.Nodup := nodup_of_sorted _ _ m.log_sorted
  have hranked : Ranked rk m.reads 0 m.logOps := by
    constructor
    · intro q x hx
      obtain ⟨_, _, _, hp, _, hnl⟩ := m.read_ok q x hx
      simp [rk, hnl, hp]
    · intro j hj
      have hg : m.logOps.getD j 0 = m.logOps[j] := by simp [List.getD, hj]
      have hmem : m.logOps[j] ∈ m.logOps := List.getElem_mem hj
      simp only [rk, hg, hmem, if_true, Nat.zero_add]
      rw [idxOf_getElem_nodup _ hnd j hj]
  -- position of a log operation
  have hget : ∀ a ∈ m.logOps, m.logOps.idxOf a < m.logOps.length ∧ m.logOps.getD (m.logOps.idxOf a) 0 = a := by
    intro a ha
    have hlt := List.idxOf_lt_length_iff.2 ha
    refine ⟨hlt, ?_⟩
    simp [List.getD, hlt]
  apply single_log_linearizable h m.logOps m.reads rk hranked m.reads_nodup m.in_range m.complete
    m.read_val m.log_val
  · -- real time never contradicts the ranks
    intro a b ha hb hpre
    obtain ⟨t, hta, hlt⟩ := hpre
    rcases ha with ha | ⟨qa, ha⟩ <;> rcases hb with hb | ⟨qb, hb⟩
    · -- log, log
      obtain ⟨oka, _, hra⟩ := m.log_ok a ha
      obtain ⟨okb, hib, _⟩ := m.log_ok b hb
      obtain ⟨⟨tr, hack⟩, htr⟩ := hra t hta
      have := strong_read_linearizable E sem _ _ oka okb tr hack (by rw [← htr, ← hib]; exact hlt)
      have := idxOf_sorted m.logOps (fun x => (m.logRun x).apply.index) m.log_sorted a b ha hb this
      simp only [rk, ha, hb, if_true]; omega
    · -- log, read
      obtain ⟨oka, _, hra⟩ := m.log_ok a ha
      obtain ⟨okb, hib, _, hp, hq, hnl⟩ := m.read_ok qb b hb
      obtain ⟨⟨tr, hack⟩, htr⟩ := hra t hta
      have h1 := lin_read_sees_acked E sem _ okb _ oka tr hack (by rw [← htr, ← hib]; exact hlt)
      have h2 := read_wait E h m qb b hb a ha h1
      obtain ⟨hl, hg⟩ := hget a ha
      have := (m.read_pos qb b hb _ hl).1 (by rw [hg]; exact h2)
      simp only [rk, ha, hnl, if_true, if_false, hp]; omega
    · -- read, log
      obtain ⟨oka, _, hra, hp, hq, hnl⟩ := m.read_ok qa a ha
      obtain ⟨okb, hib, _⟩ := m.log_ok b hb
      have hresp : t = (m.linRun a).tResp := by rw [hra] at hta; cases hta; rfl
      have h1 := later_write_not_observed E sem _ oka _ okb (by rw [← hresp, ← hib]; exact hlt)
      obtain ⟨hl, hg⟩ := hget b hb
      have hn : ¬ m.logOps.idxOf b < qa := by
        intro hc
        have := (m.read_pos qa a ha _ hl).2 hc
        rw [hg] at this; omega
      simp only [rk, hb, hnl, if_true, if_false, hp]; omega
    · -- read, read
      obtain ⟨oka, _, hra, hpa, hqa, hnla⟩ := m.read_ok qa a ha
      obtain ⟨okb, hib, _, hpb, hqb, hnlb⟩ := m.read_ok qb b hb
      have hresp : t = (m.linRun a).tResp := by rw [hra] at hta; cases hta; rfl
      have h1 := reads_monotone E sem _ _ oka okb (by rw [← hresp, ← hib]; exact hlt)
      have hle : qa ≤ qb := by
        apply Nat.le_of_not_lt
        intro hc
        -- the qb-th log operation is seen by a, hence (wait) by b
        have hl : qb < m.logOps.length := by omega
        have ha1 := (m.read_pos qa a ha qb hl).2 hc
        have hmem : m.logOps.getD qb 0 ∈ m.logOps := by
          have : m.logOps.getD qb 0 = m.logOps[qb] := by simp [List.getD, hl]
          rw [this]; exact List.getElem_mem hl
        have hb1 := read_wait E h m qb b hb _ hmem (by omega)
        have := (m.read_pos qb b hb qb hl).1 hb1
        omega
      simp only [rk, hnla, hnlb, if_false, hpa, hpb]; omega
  · -- inside a block: invocation order respects real time
    intro q
    refine (m.reads_sorted q).imp ?_
    intro x y hxy hpre
    obtain ⟨t, ht, hlt⟩ := hpre
    have := m.inv_lt_resp y t ht
    omega


/-! ## 4. tie to the source: regenerated facts -/

set_option maxRecDepth 16384

theorem waitLin_source_shape : Gen.ReadPath.waitLin = Expect.ReadPath.waitLin := by decide
theorem waitLin_step_order : Expect.ReadPath.callsOf Gen.ReadPath.waitLin = LinRead.stepNames := by decide
theorem execute_source_shape : Gen.ReadPath.executeSkel = Expect.ReadPath.executeSkel := by decide
theorem query_source_shape : Gen.ReadPath.querySkel = Expect.ReadPath.querySkel := by decide
theorem request_source_shape : Gen.ReadPath.requestSkel = Expect.ReadPath.requestSkel := by decide

/-- position of the first occurrence of a token -/
def pos (l : List (String × String)) (t : String × String) : Nat := l.idxOf t

/-- leader guards sit before the log append; the term is read before
`waitForLinearizableRead` and before `raft.Apply`; `strongReadTerm` is stored only after
`raft.Apply` (in Query and Request) -/
theorem guards_before_apply :
    pos Gen.ReadPath.executeSkel ("ret", "ErrNotLeader") < pos Gen.ReadPath.executeSkel ("call", "s.execute") ∧
    pos Gen.ReadPath.querySkel ("call", "s.raft.CurrentTerm") < pos Gen.ReadPath.querySkel ("call", "s.waitForLinearizableRead") ∧
    pos Gen.ReadPath.querySkel ("call", "s.waitForLinearizableRead") < pos Gen.ReadPath.querySkel ("call", "s.raft.Apply") ∧
    pos Gen.ReadPath.querySkel ("ret", "ErrNotLeader") < pos Gen.ReadPath.querySkel ("call", "s.raft.Apply") ∧
    pos Gen.ReadPath.querySkel ("call", "s.raft.Apply") < pos Gen.ReadPath.querySkel ("call", "s.strongReadTerm.Store") ∧
    pos Gen.ReadPath.requestSkel ("call", "s.raft.CurrentTerm") < pos Gen.ReadPath.requestSkel ("call", "s.waitForLinearizableRead") ∧
    pos Gen.ReadPath.requestSkel ("call", "s.raft.Apply") < pos Gen.ReadPath.requestSkel ("call", "s.strongReadTerm.Store") := by
  decide

/-- every place where `strongReadTerm` is written: reset in Open, `readTerm` after a
strong read went through the log (Query, Request) — nothing else -/
theorem strongReadTerm_writers :
    Gen.ReadPath.strongReadTermStores =
      ["Open: s.strongReadTerm.Store(0)", "Query: s.strongReadTerm.Store(readTerm)",
       "Request: s.strongReadTerm.Store(readTerm)"] := by decide

/-! ## 5. non-vacuity -/

-- the checker accepts a real linearization and rejects a stale read
example :
    let h : History := [⟨0, some 5, .write 1 10⟩, ⟨6, some 9, .write 1 11⟩, ⟨10, some 12, .read 1 (some 11)⟩,
                        ⟨3, none, .write 2 7⟩, ⟨11, some 13, .read 2 none⟩]
    checkWitness h [0, 1, 2, 4] = true ∧ checkWitness h [0, 1, 4, 2, 3] = true ∧
    checkWitness h [1, 0, 2, 4] = false ∧ checkWitness h [0, 1, 2] = false := by decide

example :
    let h : History := [⟨0, some 5, .write 1 10⟩, ⟨6, some 9, .write 1 11⟩, ⟨10, some 12, .read 1 (some 10)⟩]
    checkWitness h [0, 1, 2] = false ∧ checkWitness h [0, 2, 1] = false ∧ checkWitness h [1, 0, 2] = false := by decide

/-- `RaftSem` and the run predicates are satisfiable together, INCLUDING the central fault
case: a one-node cluster whose node is leader of term 1 throughout. A write is appended at
index 2 by an Apply that never returns to the client (unknown outcome); a strong read is
appended at index 3 and returns at instant 4, when both entries are committed; then a
linearizable read is served. -/
def wApp : AppendRun := ⟨0, 1, 2, 1⟩
def sApp : AppendRun := ⟨0, 2, 3, 1⟩

def demoExec : Exec where
  term := fun _ _ => 1
  commitIdx := fun _ t => if t < 4 then 0 else 3
  leaderAt := fun n T _ => n = 0 ∧ T = 1
  committedBy := fun i L T tc => L = 0 ∧ T = 1 ∧ 4 ≤ tc ∧ i ≤ 3
  ownEntry := fun n T j => n = 0 ∧ T = 1 ∧ (j = 2 ∨ j = 3)
  appended := fun a => a = wApp ∨ a = sApp
  entryCommitted := fun a => a = wApp ∨ a = sApp
  applyRet := fun a t => a = sApp ∧ t = 4
  verifyOk := fun n t0 t1 => n = 0 ∧ t0 ≤ t1

/-- the write whose Apply never returned: the client saw no response -/
def demoWrite : LogOpRun := ⟨1, 1, 1, wApp, none, 0⟩
def demoStrong : LogOpRun := ⟨1, 1, 1, sApp, some 4, 5⟩
def demoRead : LinReadRun :=
  { node := 0, tInv := 6, tReadTerm := 6, readTerm := 1, steps := [7, 7, 7, 8, 9, 11, 11, 11],
    stored := some demoStrong, tVerifyEnd := 10, readIndex := 3, tRead := 12, observed := 3, tResp := 13 }

theorem demoSem : RaftSem demoExec := by
  refine ⟨?_, ?_, ?_, ?_, ?_, ?_, ?_, ?_, ?_, ?_, ?_⟩
  · intro n t t' _; simp [demoExec]
  · intro n t t' h; simp only [demoExec]; split <;> split <;> omega
  · intro i L T tc h
    simp only [demoExec] at h ⊢
    obtain ⟨h1, h2, h3, h4⟩ := h
    refine ⟨⟨h1, h2⟩, ?_⟩
    rw [if_neg (by omega)]; exact h4
  · intro n T t h; simp only [demoExec] at h ⊢; omega
  · intro L L' T t t' h h'; simp only [demoExec] at h h'; omega
  · intro i L T tc n T' j h h' hlt; simp only [demoExec] at h h'; omega
  · intro i L T tc a h ha _ hle
    simp only [demoExec] at h ha
    rcases ha with rfl | rfl <;> simp only [wApp, sApp] at hle <;> omega
  · intro a t h
    simp only [demoExec] at h
    obtain ⟨rfl, rfl⟩ := h
    exact ⟨Or.inr rfl, Or.inr rfl, ⟨2, by decide, by decide, ⟨rfl, rfl⟩⟩, ⟨rfl, rfl, Or.inr rfl⟩,
      ⟨rfl, rfl, by decide, by decide⟩⟩
  · intro a ha
    simp only [demoExec] at ha
    rcases ha with rfl | rfl <;> decide
  · intro n t
    simp only [demoExec]
    by_cases h : t < 4
    · left; simp [h]
    · right; exact ⟨0, 1, t, Nat.le_refl _, rfl, rfl, by omega, by simp [h]⟩
  · intro n t0 t1 T' h h0 h1
    simp only [demoExec] at h h0 h1 ⊢
    refine ⟨?_, t0, Nat.le_refl _, h.2, h.1, h0.symm⟩
    intro i L T tc hc _; omega

theorem demoWrite_ok : demoWrite.Ok demoExec :=
  ⟨by decide, by decide, rfl, Or.inl rfl, Or.inl rfl, fun t h => by simp [demoWrite] at h⟩

theorem demoStrong_ok : demoStrong.Ok demoExec :=
  ⟨by decide, by decide, rfl, Or.inr rfl, Or.inr rfl, fun t h => by
    have : t = 4 := by simpa [demoStrong] using h.symm
    subst this
    exact ⟨⟨rfl, rfl⟩, by decide⟩⟩

theorem demoRead_ok : demoRead.Ok demoExec := by
  refine ⟨by decide, by decide, by decide, by decide, rfl, rfl, ?_, ?_, ?_, by decide, rfl, by decide, ?_⟩
  · intro s hs
    have : s = demoStrong := by simpa [demoRead] using hs.symm
    subst this
    exact ⟨demoStrong_ok, rfl, 4, rfl, by decide⟩
  · simp [demoRead, demoExec, LinReadRun.at, idx_commit]
  · exact ⟨rfl, by decide⟩
  · simp [demoRead, demoExec]

/-- the demo as a client history: the write WITHOUT a response, the strong read and the
linearizable read that both return the written value -/
def demoHistory : History :=
  [⟨1, none, .write 1 10⟩, ⟨1, some 5, .read 1 (some 10)⟩, ⟨6, some 13, .read 1 (some 10)⟩]

def demoWaitEs : List LinRead.Ev :=
  [.append .noop, .append .command, .append .command, .commit 3, .fsm, .fsm, .fsm]

def demoModel : ModelHistory demoExec demoHistory where
  logOps := [0, 1]
  reads := fun q => if q = 2 then [2] else []
  pos := fun _ => 2
  logRun := fun i => if i = 0 then demoWrite else demoStrong
  linRun := fun _ => demoRead
  waitEs := fun _ => demoWaitEs
  waitEs1 := fun _ => []
  waitEs2 := fun _ => []
  log_ok := by
    intro i hi
    simp only [List.mem_cons, List.mem_singleton, List.not_mem_nil, or_false] at hi
    rcases hi with rfl | rfl
    · refine ⟨demoWrite_ok, rfl, ?_⟩
      intro t ht; simp [demoHistory, opAt] at ht
    · refine ⟨demoStrong_ok, rfl, ?_⟩
      intro t ht
      simp [demoHistory, opAt] at ht
      subst ht
      exact ⟨⟨4, rfl⟩, rfl⟩
  log_sorted := by simp [demoWrite, demoStrong, wApp, sApp]
  read_ok := by
    intro q r hr
    by_cases hq : q = 2
    · subst hq
      simp only [if_true, List.mem_singleton] at hr
      subst hr
      exact ⟨demoRead_ok, rfl, rfl, rfl, by decide, by decide⟩
    · simp [hq] at hr
  read_pos := by
    intro q r hr j hj
    by_cases hq : q = 2
    · subst hq
      simp only [List.length_cons, List.length_nil] at hj
      match j, hj with
      | 0, _ => simp [demoWrite, demoRead, wApp]
      | 1, _ => simp [demoStrong, demoRead, sApp]
    · simp [hq] at hr
  wait_ok := by
    intro q r hr
    refine ⟨fun _ h => by simp at h, fun _ h => by simp at h, by decide, by decide, by decide, ?_⟩
    intro a ha _
    simp only [List.mem_cons, List.mem_singleton, List.not_mem_nil, or_false] at ha
    rcases ha with rfl | rfl <;> left <;> decide
  reads_nodup := by intro q; by_cases hq : q = 2 <;> simp [hq]
  reads_sorted := by intro q; by_cases hq : q = 2 <;> simp [hq]
  in_range := by
    intro x hx
    rcases hx with hx | ⟨q, hx⟩
    · simp only [List.mem_cons, List.mem_singleton, List.not_mem_nil, or_false] at hx
      rcases hx with rfl | rfl <;> decide
    · by_cases hq : q = 2
      · simp [hq] at hx; subst hx; decide
      · simp [hq] at hx
  complete := by
    intro i hi hne
    simp only [demoHistory, List.length_cons, List.length_nil] at hi
    match i, hi with
    | 0, _ => exact Or.inl (by simp)
    | 1, _ => exact Or.inl (by simp)
    | 2, _ => exact Or.inr ⟨2, by decide, by simp⟩
  read_val := by
    intro q r hr
    by_cases hq : q = 2
    · simp [hq] at hr; subst hr; subst hq
      exact ⟨1, some 10, rfl, by decide⟩
    · simp [hq] at hr
  log_val := by
    intro j hj k res hk
    simp only [List.length_cons, List.length_nil] at hj
    match j, hj with
    | 0, _ => simp [demoHistory, opAt] at hk
    | 1, _ =>
      simp [demoHistory, opAt] at hk
      obtain ⟨rfl, rfl⟩ := hk
      decide
  inv_lt_resp := by
    intro i t ht
    match i with
    | 0 => simp [demoHistory, opAt] at ht
    | 1 => simp [demoHistory, opAt] at ht ⊢; omega
    | 2 => simp [demoHistory, opAt] at ht ⊢; omega
    | i + 3 => simp [demoHistory, opAt] at ht

/-- the demo history — with its unacknowledged but committed write — is linearizable, and the
executable checker accepts the order that contains that write -/
example : Linearizable demoHistory := history_linearizable demoExec demoSem demoHistory demoModel
example : checkWitness demoHistory [0, 1, 2] = true ∧ checkWitness demoHistory [1, 2] = false := by decide

end C02

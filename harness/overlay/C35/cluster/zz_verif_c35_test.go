package cluster

// C35 (framing half): the frame reader and mux models (RqModel/Model/Frame.lean)
// against the real tcp.Mux-less cluster.Service over TCP, and the assumed law of
// Go's append growth against the real runtime.
//
// A stream is a concatenation of items: well-formed GET_NODE_META frames (each must
// be answered by exactly one response frame), zero-length frames (decode to a command
// of type UNKNOWN: no answer, connection stays usable), frames with an undecodable
// payload (connection closed), a length prefix that does not fit an int64 (closed at
// once), and optionally a truncated last frame. The model parses the byte stream
// into frames; the harness derives from the model's frames how many responses must
// come back and whether the service must close by itself, and compares.

import (
	"encoding/binary"
	"errors"
	"fmt"
	"io"
	"net"
	"strings"
	"sync"
	"syscall"
	"testing"
	"time"

	"github.com/rqlite/rqlite/v10/auth"
	"github.com/rqlite/rqlite/v10/cluster/proto"
	command "github.com/rqlite/rqlite/v10/command/proto"
	pb "google.golang.org/protobuf/proto"
)

func c35Frame(p []byte) []byte {
	b := make([]byte, 8)
	binary.LittleEndian.PutUint64(b, uint64(len(p)))
	return append(b, p...)
}

type c35Stream struct {
	bytes []byte
	items []string
}

func c35GenStream(r *vfRng) c35Stream {
	var s c35Stream
	meta, _ := pb.Marshal(&proto.Command{Type: proto.Command_COMMAND_TYPE_GET_NODE_META})
	n := 1 + r.Intn(6)
	for i := 0; i < n; i++ {
		switch k := r.Intn(20); {
		case k < 10:
			s.bytes = append(s.bytes, c35Frame(meta)...)
			s.items = append(s.items, "meta")
		case k < 13:
			s.bytes = append(s.bytes, c35Frame(nil)...)
			s.items = append(s.items, "zero")
		case k < 15:
			// invalid protobuf: a field header announcing more bytes than follow
			s.bytes = append(s.bytes, c35Frame(append([]byte{0x12, 0x7f}, r.Bytes(3+r.Intn(20))...))...)
			s.items = append(s.items, "undecodable")
		case k < 16:
			b := make([]byte, 8)
			binary.LittleEndian.PutUint64(b, 1<<63+uint64(r.Intn(1000)))
			s.bytes = append(s.bytes, b...)
			s.bytes = append(s.bytes, r.Bytes(r.Intn(12))...)
			s.items = append(s.items, "length>=2^63")
		case k < 17:
			// a large announced length with only a few bytes: stream ends inside the frame
			b := make([]byte, 8)
			binary.LittleEndian.PutUint64(b, uint64(1<<20+r.Intn(1<<30)))
			s.bytes = append(s.bytes, b...)
			s.bytes = append(s.bytes, r.Bytes(r.Intn(600))...)
			s.items = append(s.items, "large-length-truncated")
			return s
		case k < 18:
			f := c35Frame(meta)
			s.bytes = append(s.bytes, f[:1+r.Intn(len(f)-1)]...)
			s.items = append(s.items, "truncated")
			return s
		default:
			// a well-framed command of an undefined type: decodes, matches no case
			p, _ := pb.Marshal(&proto.Command{Type: proto.Command_Type(100 + r.Intn(50))})
			s.bytes = append(s.bytes, c35Frame(p)...)
			s.items = append(s.items, "undefined-type")
		}
	}
	return s
}

// c35ParseModel: "frames=3,0,5 phase=header:0 cap=0 received=40"
func c35ParseModel(l string) (lens []int, phase string, capv int, ok bool) {
	f := strings.Fields(l)
	if len(f) != 4 || !strings.HasPrefix(f[0], "frames=") || !strings.HasPrefix(f[1], "phase=") {
		return nil, "", 0, false
	}
	if v := strings.TrimPrefix(f[0], "frames="); v != "-" {
		for _, x := range strings.Split(v, ",") {
			var n int
			if _, err := fmt.Sscanf(x, "%d", &n); err != nil {
				return nil, "", 0, false
			}
			lens = append(lens, n)
		}
	}
	fmt.Sscanf(strings.TrimPrefix(f[2], "cap="), "%d", &capv)
	return lens, strings.TrimPrefix(f[1], "phase="), capv, true
}

// c35NoPermissionStateChange: a node whose credential store grants nothing to anybody;
// every command type is sent well-formed and without credentials. Nothing that changes
// the node's state may happen.
func c35NoPermissionStateChange(t *testing.T, rep *vfReport) {
	var mu sync.Mutex
	var calls []string
	note := func(s string) { mu.Lock(); calls = append(calls, s); mu.Unlock() }
	db := &mockDatabase{
		executeFn: func(er *command.ExecuteRequest) ([]*command.ExecuteQueryResponse, uint64, error) {
			note("db.Execute")
			return nil, 0, nil
		},
		queryFn: func(qr *command.QueryRequest) ([]*command.QueryRows, uint64, error) {
			note("db.Query")
			return nil, 0, nil
		},
		requestFn: func(rr *command.ExecuteQueryRequest) ([]*command.ExecuteQueryResponse, uint64, uint64, error) {
			note("db.Request")
			return nil, 0, 0, nil
		},
		backupFn: func(br *command.BackupRequest, dst io.Writer) error { note("db.Backup"); return nil },
		loadFn:   func(lr *command.LoadRequest) error { note("db.Load"); return nil },
	}
	mgr := &MockManager{
		removeNodeFn: func(rn *command.RemoveNodeRequest) error { note("mgr.Remove"); return nil },
		notifyFn:     func(n *command.NotifyRequest) error { note("mgr.Notify"); return nil },
		joinFn:       func(j *command.JoinRequest) error { note("mgr.Join"); return nil },
		stepdownFn:   func(wait bool, id string) error { note("mgr.Stepdown"); return nil },
	}
	cs := auth.NewCredentialsStore()
	if err := cs.Load(strings.NewReader(`[{"username":"a","password":"p","perms":[]}]`)); err != nil {
		t.Fatalf("credential store: %v", err)
	}
	tn := mustNewMockTransport()
	s := New(tn, db, mgr, cs)
	s.logger.SetOutput(io.Discard)
	hwm := make(chan uint64, 4)
	s.RegisterHWMUpdate(hwm)
	if err := s.Open(); err != nil {
		t.Fatalf("open: %v", err)
	}
	defer s.Close()
	cmds := []*proto.Command{
		{Type: proto.Command_COMMAND_TYPE_EXECUTE, Request: &proto.Command_ExecuteRequest{ExecuteRequest: &command.ExecuteRequest{Request: &command.Request{}}}},
		{Type: proto.Command_COMMAND_TYPE_QUERY, Request: &proto.Command_QueryRequest{QueryRequest: &command.QueryRequest{Request: &command.Request{}}}},
		{Type: proto.Command_COMMAND_TYPE_REQUEST, Request: &proto.Command_ExecuteQueryRequest{ExecuteQueryRequest: &command.ExecuteQueryRequest{Request: &command.Request{}}}},
		{Type: proto.Command_COMMAND_TYPE_BACKUP, Request: &proto.Command_BackupRequest{BackupRequest: &command.BackupRequest{}}},
		{Type: proto.Command_COMMAND_TYPE_BACKUP_STREAM, Request: &proto.Command_BackupRequest{BackupRequest: &command.BackupRequest{}}},
		{Type: proto.Command_COMMAND_TYPE_LOAD, Request: &proto.Command_LoadRequest{LoadRequest: &command.LoadRequest{}}},
		{Type: proto.Command_COMMAND_TYPE_LOAD_CHUNK, Request: &proto.Command_LoadChunkRequest{LoadChunkRequest: &command.LoadChunkRequest{}}},
		{Type: proto.Command_COMMAND_TYPE_REMOVE_NODE, Request: &proto.Command_RemoveNodeRequest{RemoveNodeRequest: &command.RemoveNodeRequest{Id: "n"}}},
		{Type: proto.Command_COMMAND_TYPE_NOTIFY, Request: &proto.Command_NotifyRequest{NotifyRequest: &command.NotifyRequest{Id: "n"}}},
		{Type: proto.Command_COMMAND_TYPE_JOIN, Request: &proto.Command_JoinRequest{JoinRequest: &command.JoinRequest{Id: "n", Voter: true}}},
		{Type: proto.Command_COMMAND_TYPE_JOIN, Request: &proto.Command_JoinRequest{JoinRequest: &command.JoinRequest{Id: "n"}}},
		{Type: proto.Command_COMMAND_TYPE_STEPDOWN, Request: &proto.Command_StepdownRequest{StepdownRequest: &command.StepdownRequest{}}},
		{Type: proto.Command_COMMAND_TYPE_HIGHWATER_MARK_UPDATE, Request: &proto.Command_HighwaterMarkUpdateRequest{HighwaterMarkUpdateRequest: &proto.HighwaterMarkUpdateRequest{NodeId: "x", HighwaterMark: 1<<64 - 1}}},
		{Type: proto.Command_COMMAND_TYPE_GET_NODE_META},
	}
	for _, withCreds := range []bool{false, true} {
		for _, c := range cmds {
			c.Credentials = nil
			if withCreds {
				c.Credentials = &proto.Credentials{Username: "a", Password: "p"} // a known user who holds no permission
			}
			mu.Lock()
			calls = nil
			mu.Unlock()
			p, _ := pb.Marshal(c)
			conn, err := tn.Dial(s.Addr(), 5*time.Second)
			if err != nil {
				t.Fatalf("dial: %v", err)
			}
			conn.SetDeadline(time.Now().Add(20 * time.Second))
			conn.Write(c35Frame(p))
			conn.(*net.TCPConn).CloseWrite()
			io.ReadAll(conn)
			conn.Close()
			name := strings.TrimPrefix(c.Type.String(), "COMMAND_TYPE_")
			mu.Lock()
			got := append([]string(nil), calls...)
			mu.Unlock()
			select {
			case v := <-hwm:
				got = append(got, fmt.Sprintf("highwater-mark-update-delivered(%d)", v))
			default:
			}
			rep.Count("no-permission:" + name)
			if len(got) > 0 {
				rep.Fail("state-change-without-permission:"+name,
					fmt.Sprintf("credential store grants no permission to anybody; %s sent with credentials present=%v: the node performed %v", name, withCreds, got),
					map[string]interface{}{"command": name, "credentials_present": withCreds, "performed": got, "frame_hex": vfHexB(c35Frame(p))})
			}
		}
	}

	// ---- permission matrix: user a/p holds exactly ONE permission; every command (JOIN as voter and
	// as non-voter) is sent with a's credentials. Whatever the node does must be covered by that one
	// permission according to the documented table.
	allowed := func(name string, voter bool, perm string) bool {
		if perm == "all" {
			return true
		}
		switch name {
		case "EXECUTE":
			return perm == "execute"
		case "QUERY":
			return perm == "query"
		case "REQUEST":
			return false // needs query AND execute
		case "BACKUP", "BACKUP_STREAM":
			return perm == "backup"
		case "LOAD":
			return perm == "load"
		case "REMOVE_NODE":
			return perm == "remove"
		case "NOTIFY":
			return perm == "join"
		case "JOIN":
			if voter {
				return perm == "join"
			}
			return perm == "join-read-only" || perm == "join-read-replica"
		case "STEPDOWN":
			return perm == "leader-ops"
		}
		return true // GET_NODE_META, LOAD_CHUNK, HIGHWATER_MARK_UPDATE: no permission defined (the last one is the recorded finding)
	}
	for _, perm := range []string{"all", "join", "join-read-only", "join-read-replica", "remove", "execute", "query", "status", "ready", "backup", "load", "snapshot", "leader-ops", "ui"} {
		one := auth.NewCredentialsStore()
		if err := one.Load(strings.NewReader(fmt.Sprintf(`[{"username":"a","password":"p","perms":[%q]}]`, perm))); err != nil {
			t.Fatalf("credential store: %v", err)
		}
		s.credentialStore = one
		for _, c := range cmds {
			c.Credentials = &proto.Credentials{Username: "a", Password: "p"}
			name := strings.TrimPrefix(c.Type.String(), "COMMAND_TYPE_")
			if name == "HIGHWATER_MARK_UPDATE" || name == "GET_NODE_META" || name == "LOAD_CHUNK" {
				continue
			}
			voter := c.GetJoinRequest().GetVoter()
			mu.Lock()
			calls = nil
			mu.Unlock()
			p, _ := pb.Marshal(c)
			conn, err := tn.Dial(s.Addr(), 5*time.Second)
			if err != nil {
				t.Fatalf("dial: %v", err)
			}
			conn.SetDeadline(time.Now().Add(20 * time.Second))
			conn.Write(c35Frame(p))
			conn.(*net.TCPConn).CloseWrite()
			io.ReadAll(conn)
			conn.Close()
			mu.Lock()
			got := append([]string(nil), calls...)
			mu.Unlock()
			rep.Count("permission-matrix:" + name)
			rep.Case(fmt.Sprintf("matrix %s voter=%v holding=%s", name, voter, perm), true)
			if len(got) > 0 && !allowed(name, voter, perm) {
				sig := fmt.Sprintf("state-change-without-required-permission:%s:holding=%s", name, perm)
				if name == "JOIN" {
					sig = fmt.Sprintf("state-change-without-required-permission:JOIN:voter=%v:holding=%s", voter, perm)
				}
				rep.Fail(sig, fmt.Sprintf("user a holds only the permission %q; %s (voter=%v) sent with a's credentials: the node performed %v, which that permission does not cover", perm, name, voter, got),
					map[string]interface{}{"command": name, "voter": voter, "permission_held": perm, "performed": got, "frame_hex": vfHexB(c35Frame(p))})
			}
			if len(got) == 0 && allowed(name, voter, perm) {
				rep.Fail(fmt.Sprintf("refused-although-permission-held:%s:holding=%s", name, perm), fmt.Sprintf("user a holds %q; %s (voter=%v) was refused", perm, name, voter),
					map[string]interface{}{"command": name, "voter": voter, "permission_held": perm})
			}
		}
	}
	s.credentialStore = cs
}

func TestVerifC35Frames(t *testing.T) {
	rep := vfNewReport("C35", "framing: streams of 1-6 items (valid GET_NODE_META frames, zero-length frames, undecodable payloads, undefined command types, lengths >= 2^63, large announced lengths with few bytes, truncated frames) sent to the real cluster.Service over TCP; the model parses the stream, the harness compares the number of response frames and whether the service closes by itself; non-trivial when the stream has at least two items; distinct by the bytes; plus the assumed growth law of append and io.ReadAll's capacity bound measured on the real runtime")
	defer rep.Write()
	r := vfNewRng(3535)

	// ---- assumed law of `append` (Cfg.grow): c < cap(append(full c-byte slice, x)) <= 2c + 8192
	for c := 1; c <= 64<<20; c = c*3/2 + 1 {
		b := make([]byte, c)
		nb := append(b, 0)
		if cap(nb) <= c || cap(nb) > 2*c+8192 {
			rep.Disagree(vfDisagreement{Component: "frame:append-law", Note: fmt.Sprintf("append to a full %d-byte slice gives capacity %d, outside (c, 2c+8192]", c, cap(nb)), At: -1})
		}
		rep.Count("append-law-points")
	}
	// io.ReadAll(io.LimitReader(..)) on n available bytes with a huge announced length: capacity <= 2n + 8192
	for _, n := range []int{0, 1, 511, 512, 513, 4096, 100000, 1 << 20, 5 << 20} {
		src := io.LimitReader(strings.NewReader(strings.Repeat("x", n)), 1<<62)
		p, _ := io.ReadAll(src)
		if len(p) != n || cap(p) > 2*n+8192 {
			rep.Disagree(vfDisagreement{Component: "frame:readall-bound", Note: fmt.Sprintf("ReadAll of %d bytes: len %d cap %d exceeds 2n+8192", n, len(p), cap(p)), At: -1})
		}
		rep.Count("readall-bound-points")
	}

	// ---- real service
	tn := mustNewMockTransport()
	s := New(tn, mustNewMockDatabase(), mustNewMockManager(), nil)
	s.logger.SetOutput(io.Discard)
	s.SetAPIAddr("api:4001")
	if err := s.Open(); err != nil {
		t.Fatalf("open: %v", err)
	}
	defer s.Close()

	c35NoPermissionStateChange(t, rep)

	n := vfScale(300, 6000)
	var streams []c35Stream
	var ops []string
	for i := 0; i < n; i++ {
		st := c35GenStream(r)
		streams = append(streams, st)
		ops = append(ops, "read incr "+vfHexB(st.bytes))
	}
	// mux model: header routing of the same streams prefixed by a header byte
	var muxOps []string
	for i := 0; i < 40; i++ {
		h := byte(r.Intn(5))
		muxOps = append(muxOps, fmt.Sprintf("mux 1,2 %s", vfHexB(append([]byte{h}, r.Bytes(r.Intn(5))...))))
	}
	model, err := vfModel("frame", append(append([]string(nil), ops...), muxOps...))
	if err != nil {
		rep.Disagree(vfDisagreement{Component: "frame", Note: err.Error(), At: -1})
		return
	}
	for i, op := range muxOps {
		var hb string
		fmt.Sscanf(op, "mux 1,2 %s", &hb)
		b := vfUnhex(hb)
		want := "closed"
		if b[0] == 1 || b[0] == 2 {
			want = fmt.Sprintf("handler %d %d", b[0], len(b)-1)
		}
		if model[len(ops)+i] != want {
			rep.Disagree(vfDisagreement{Component: "frame", Ops: []string{op}, Impl: []string{want}, Model: []string{model[len(ops)+i]}, At: 0, Note: "tcp/mux.go routing rule"})
		}
	}

	for i, st := range streams {
		lens, phase, capv, ok := c35ParseModel(model[i])
		if !ok {
			rep.Disagree(vfDisagreement{Component: "frame", Ops: []string{ops[i]}, Model: []string{model[i]}, At: 0, Note: "unparseable model output"})
			continue
		}
		// what the service must do, given the model's framing
		off := 0
		wantResp := 0
		wantClosed := phase == "closed"
		for _, l := range lens {
			payload := st.bytes[off+8 : off+8+l]
			off += 8 + l
			c := &proto.Command{}
			if pb.Unmarshal(payload, c) != nil {
				wantClosed = true
				break
			}
			if c.Type == proto.Command_COMMAND_TYPE_GET_NODE_META {
				wantResp++
			}
		}
		if capv > 2*len(st.bytes)+8192 {
			rep.Disagree(vfDisagreement{Component: "frame", Ops: []string{ops[i]}, Model: []string{model[i]}, At: 0, Note: "model allocation exceeds the proved bound"})
		}

		conn, err := tn.Dial(s.Addr(), 5*time.Second)
		if err != nil {
			t.Fatalf("dial: %v", err)
		}
		conn.SetDeadline(time.Now().Add(20 * time.Second))
		if _, err := conn.Write(st.bytes); err != nil {
			t.Fatalf("write: %v", err)
		}
		if !wantClosed {
			conn.(*net.TCPConn).CloseWrite()
		}
		all, err := io.ReadAll(conn)                                       // for wantClosed the service must end the stream by itself
		closedByItself := err == nil || errors.Is(err, syscall.ECONNRESET) // reset: closed with our bytes still unread
		conn.Close()
		gotResp := 0
		for len(all) >= 8 {
			sz := int(binary.LittleEndian.Uint64(all[:8]))
			if sz > len(all)-8 {
				break
			}
			m := &proto.NodeMeta{}
			if pb.Unmarshal(all[8:8+sz], m) == nil && m.Url != "" {
				gotResp++
			}
			all = all[8+sz:]
		}
		impl := fmt.Sprintf("responses=%d closed=%v", gotResp, closedByItself)
		want := fmt.Sprintf("responses=%d closed=%v", wantResp, true)
		if impl != want || len(all) != 0 {
			rep.Disagree(vfDisagreement{Component: "frame", Ops: []string{ops[i]}, Impl: []string{impl, fmt.Sprintf("stray=%d", len(all))}, Model: []string{want, "raw:" + model[i]}, At: 0, Note: strings.Join(st.items, ",")})
			rep.Count("streams-disagreeing")
		}
		rep.Case(vfHexB(st.bytes), len(st.items) >= 2)
		for _, it := range st.items {
			rep.Count("item:" + it)
		}
		rep.Count("phase:" + strings.SplitN(phase, ":", 2)[0])
		rep.TracesValidated++
		if i < 3 {
			rep.Sample(map[string]interface{}{"items": st.items, "model": model[i], "observed": impl})
		}
	}
}

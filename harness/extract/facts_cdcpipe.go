package main

// CdcPipe (C25): syntactic facts about cdc/service.go the pipeline model relies on.
//
//   syncDrainsHandoff   writeToBatcher: the `case ch := <-s.snapshotCh` clause contains, before
//                       the flush marker is written, a select with a receive from s.in and a
//                       default clause (the hand-off channel is drained before the flush)
//   leaderKeepsUnsent   leaderLoop: the event taken from s.fifo.C is stored in s.unsent and the
//                       retry loop's stop branch returns without clearing it

import (
	"go/ast"
	"strings"
)

func init() {
	register("CdcPipe", func(x *X) {
		x.Comment("cdc/service.go (*Service).writeToBatcher: the snapshot-sync case drains s.in first")
		if fd := x.Func("cdc", "Service", "writeToBatcher"); fd != nil {
			found, seen := false, false
			ast.Inspect(fd.Body, func(n ast.Node) bool {
				cc, ok := n.(*ast.CommClause)
				if !ok || cc.Comm == nil || !strings.Contains(x.Src(cc.Comm), "<-s.snapshotCh") {
					return true
				}
				seen = true
				// position of the flush marker write
				var flushPos = cc.End()
				for _, c := range x.Calls(cc, "WriteOne") {
					if c.Pos() < flushPos {
						flushPos = c.Pos()
					}
				}
				ast.Inspect(cc, func(m ast.Node) bool {
					sel, ok := m.(*ast.SelectStmt)
					if !ok || sel.Pos() > flushPos {
						return true
					}
					recv, def := false, false
					for _, st := range sel.Body.List {
						c := st.(*ast.CommClause)
						if c.Comm == nil {
							def = true
						} else if strings.Contains(x.Src(c.Comm), "<-s.in") {
							recv = true
						}
					}
					if recv && def {
						found = true
					}
					return true
				})
				return true
			})
			x.DefOptBool("syncDrainsHandoff", found, seen)
		} else {
			x.DefOptBool("syncDrainsHandoff", false, false)
		}

		x.Comment("cdc/service.go (*Service).leaderLoop: the event read from the FIFO is kept in s.unsent across a stop")
		if fd := x.Func("cdc", "Service", "leaderLoop"); fd != nil {
			src := x.Src(fd.Body)
			keeps := strings.Contains(src, "s.unsent = ev") && strings.Contains(src, "ev := s.unsent")
			x.DefOptBool("leaderKeepsUnsent", keeps, true)
		} else {
			x.DefOptBool("leaderKeepsUnsent", false, false)
		}
	})
}

/-
Progress of the queued-write path in safety form (RqModel/Model/QueueSvc.lean):
a measure every loop/consumer step lowers, the scheduler `svcDrain` (everybody
keeps running, `Execute` succeeds when called, no new requests) and the state it
ends in. Used by Props/C23.
-/
import RqModel.Lemmas.QueueSvc
import RqModel.Lemmas.QueueDrain
namespace RqModel.QueueSvc
open RqModel.Queue

/-- flags no scheduler step of `svcDrain` touches -/
def flags (v : Svc) : Bool × Nat := (v.stopped, v.lostAcks)

theorem flags_stopped {v v' : Svc} (h : flags v' = flags v) (hv : v.stopped = false) : v'.stopped = false := by
  have := congrArg Prod.fst h; simp only [flags] at this; rw [this]; exact hv

/-- progress measure of the whole queued-write path -/
def nu (v : Svc) : Nat := 2 * mu v.q + (if v.cur.isSome then 1 else 0)

/-- everybody keeps running, `Execute` succeeds whenever it is called, no new requests arrive -/
def svcDrain : Nat → Svc → Svc
  | 0, v => v
  | fuel + 1, v =>
    match step v .execOk with
    | some v' => svcDrain fuel v'
    | none =>
      match step v .take with
      | some v' => svcDrain fuel v'
      | none =>
        match Queue.send v.q with
        | some _ => svcDrain fuel (next v (.queue .send))
        | none =>
          match Queue.recv v.q with
          | some _ => svcDrain fuel (next v (.queue .recv))
          | none =>
            match Queue.fire v.q with
            | some _ => svcDrain fuel (next v (.queue .fire))
            | none => v

theorem closeReq_mu (q : S) (i : Nat) : mu (Queue.next q (.closeReq i)) = mu q ∧
    env (Queue.next q (.closeReq i)) = env q := by
  unfold Queue.next
  cases h : Queue.step q (.closeReq i) with
  | none => exact ⟨rfl, rfl⟩
  | some q' =>
    simp only [Queue.step, closeReq] at h
    split at h
    · cases h; exact ⟨rfl, rfl⟩
    · cases h

theorem finish_nu (v : Svc) (r : Req) :
    mu (finish v r).q = mu v.q ∧ env (finish v r).q = env v.q ∧ (finish v r).cur = none ∧
    flags (finish v r) = flags v := by
  obtain ⟨h1, h2⟩ := closeReq_mu v.q v.done.length
  exact ⟨h1, h2, rfl, rfl⟩

theorem execOk_nu (v v' : Svc) (h : step v .execOk = some v') :
    nu v' + 1 = nu v ∧ env v'.q = env v.q ∧ flags v' = flags v := by
  simp only [step] at h
  split at h
  · cases h
  · split at h
    · rename_i r hc
      cases h
      obtain ⟨h1, h2, h3, h4⟩ := finish_nu { v with applied := v.applied ++ [r.objs] } r
      refine ⟨?_, h2, h4⟩
      unfold nu
      rw [h1, h3]
      simp [hc]
    · cases h

theorem take_nu (v v' : Svc) (h : step v .take = some v') :
    nu v' + 1 ≤ nu v ∧ env v'.q = env v.q ∧ flags v' = flags v := by
  simp only [step] at h
  split at h
  · cases h
  · rename_i hcond
    have hcn : v.cur = none := by
      cases hx : v.cur with
      | none => rfl
      | some _ => simp [hx] at hcond
    split at h
    · cases h
    · rename_i r hsend
      have hcons : Queue.consume v.q = some { v.q with sendCh := none, emitted := v.q.emitted ++ [r] } := by
        simp [consume, hsend]
      have hnext : Queue.next v.q .consume = { v.q with sendCh := none, emitted := v.q.emitted ++ [r] } := by
        simp [Queue.next, Queue.step, hcons]
      obtain ⟨m1, m2, _, _⟩ := consume_mu _ _ hcons
      have m1' : mu (Queue.next v.q .consume) + 1 = mu v.q := by rw [hnext]; exact m1
      have m2' : env (Queue.next v.q .consume) = env v.q := by rw [hnext]; exact m2
      split at h
      · cases h
        obtain ⟨h1, h2, h3, h4⟩ := finish_nu { v with q := Queue.next v.q .consume } r
        refine ⟨?_, ?_, h4⟩
        · unfold nu
          rw [h1, h3]
          simp only [hcn, Option.isSome_none, Bool.false_eq_true, if_false]
          omega
        · rw [h2]; exact m2'
      · cases h
        refine ⟨?_, m2', rfl⟩
        simp only [nu, hcn, Option.isSome_some, if_true, Option.isSome_none, Bool.false_eq_true, if_false]
        omega

theorem queue_step_nu (v : Svc) (st : Queue.Step) (q' : S) (henv : envStep st = true)
    (hs : Queue.step v.q st = some q') (hmu : mu q' + 1 ≤ mu v.q) (he : env q' = env v.q) :
    nu (next v (.queue st)) + 1 ≤ nu v ∧ env (next v (.queue st)).q = env v.q ∧
    flags (next v (.queue st)) = flags v := by
  have hn : next v (.queue st) = { v with q := q' } := by
    simp [next, step, henv, Queue.next, hs]
  rw [hn]
  refine ⟨?_, he, rfl⟩
  simp only [nu]
  omega

/-- nothing is left anywhere between acceptance and application -/
structure AllApplied (v : Svc) : Prop where
  settled : Settled v.q
  cur : v.cur = none

theorem svcDrain_spec (fuel : Nat) (v : Svc) (hi : SInv v) (hq : v.q.stopped = false) (hv : v.stopped = false)
    (hf : nu v ≤ fuel) :
    SInv (svcDrain fuel v) ∧ env (svcDrain fuel v).q = env v.q ∧ AllApplied (svcDrain fuel v) ∧
    flags (svcDrain fuel v) = flags v := by
  induction fuel generalizing v with
  | zero =>
    simp only [svcDrain]
    have h0 : nu v = 0 := by omega
    simp only [nu] at h0
    have hcur : v.cur = none := by
      cases hx : v.cur with
      | none => rfl
      | some _ => simp [hx] at h0
    have hmu : mu v.q ≤ 0 := by omega
    obtain ⟨_, _, hs, _⟩ := drain_spec 0 v.q hi.reach hq hmu
    exact ⟨hi, trivial, ⟨by simpa [drain] using hs, hcur⟩, trivial⟩
  | succ fuel ih =>
    simp only [svcDrain]
    have stoppedQ : ∀ q' : S, env q' = env v.q → q'.stopped = false := by
      intro q' he
      have := congrArg (·.1) he; simp only [env] at this; rw [this]; exact hq
    cases h1 : step v .execOk with
    | some v' =>
      simp only
      obtain ⟨a, b, c⟩ := execOk_nu v v' h1
      obtain ⟨x, y, z, w⟩ := ih v' (step_inv _ _ _ hi h1) (stoppedQ _ b) (flags_stopped c hv) (by omega)
      exact ⟨x, y.trans b, z, w.trans c⟩
    | none =>
      simp only
      cases h2 : step v .take with
      | some v' =>
        simp only
        obtain ⟨a, b, c⟩ := take_nu v v' h2
        obtain ⟨x, y, z, w⟩ := ih v' (step_inv _ _ _ hi h2) (stoppedQ _ b) (flags_stopped c hv) (by omega)
        exact ⟨x, y.trans b, z, w.trans c⟩
      | none =>
        simp only
        cases h3 : Queue.send v.q with
        | some q' =>
          simp only
          obtain ⟨m1, m2, _, _⟩ := send_mu _ _ h3
          obtain ⟨a, b, c⟩ := queue_step_nu v .send q' rfl h3 (by omega) m2
          obtain ⟨x, y, z, w⟩ := ih _ (next_inv v _ hi) (stoppedQ _ b) (flags_stopped c hv) (by omega)
          exact ⟨x, y.trans b, z, w.trans c⟩
        | none =>
          simp only
          cases h4 : Queue.recv v.q with
          | some q' =>
            simp only
            obtain ⟨m1, m2, _⟩ := recv_mu _ _ h4
            obtain ⟨a, b, c⟩ := queue_step_nu v .recv q' rfl h4 m1 m2
            obtain ⟨x, y, z, w⟩ := ih _ (next_inv v _ hi) (stoppedQ _ b) (flags_stopped c hv) (by omega)
            exact ⟨x, y.trans b, z, w.trans c⟩
          | none =>
            simp only
            cases h5 : Queue.fire v.q with
            | some q' =>
              simp only
              obtain ⟨m1, m2, _, _⟩ := fire_mu _ _ hi.reach.inv h5
              obtain ⟨a, b, c⟩ := queue_step_nu v .fire q' rfl h5 (by omega) m2
              obtain ⟨x, y, z, w⟩ := ih _ (next_inv v _ hi) (stoppedQ _ b) (flags_stopped c hv) (by omega)
              exact ⟨x, y.trans b, z, w.trans c⟩
            | none =>
              simp only
              -- nothing is enabled
              have hcur : v.cur = none := by
                cases hx : v.cur with
                | none => rfl
                | some r => simp [step, hv, hx] at h1
              have hsc : v.q.sendCh = none := by
                cases hx : v.q.sendCh with
                | none => rfl
                | some r =>
                  simp only [step, hv, hcur, hx] at h2
                  simp at h2
                  split at h2 <;> cases h2
              have hsg : v.q.sending = none := by
                cases hx : v.q.sending with
                | none => rfl
                | some r => simp [send, hx, hsc] at h3
              have hb : v.q.batchCh = [] := by
                cases hx : v.q.batchCh with
                | nil => rfl
                | cons a t =>
                  cases a <;> simp [recv, hx, hq, hsg] at h4
                  all_goals (split at h4 <;> cases h4)
              have ht : v.q.timer = false := by
                cases hx : v.q.timer with
                | false => rfl
                | true => simp [fire, hx, hq, hsg] at h5
              exact ⟨hi, trivial, ⟨⟨hsc, hsg, hb, ht⟩, hcur⟩, trivial⟩

/-! ### all schedules, not one scheduler -/

/-- the steps of the queue loop and of `runQueue` (no new requests, no shutdown);
`Execute` may fail (without effect) any number of times -/
inductive SStep where
  | execOk | execFail (k : ErrKind) | take | send | recv | fire
deriving Repr, DecidableEq

def sstep (v : Svc) : SStep → Option Svc
  | .execOk => step v .execOk
  | .execFail k => step v (.execFail k)
  | .take => step v .take
  | .send => (Queue.send v.q).map (fun _ => next v (.queue .send))
  | .recv => (Queue.recv v.q).map (fun _ => next v (.queue .recv))
  | .fire => (Queue.fire v.q).map (fun _ => next v (.queue .fire))

def SStep.isFail : SStep → Bool
  | .execFail _ => true
  | _ => false

def runS (v : Svc) : List SStep → Option Svc
  | [] => some v
  | st :: rest => (sstep v st).bind (fun v' => runS v' rest)

/-- nothing but a failing `Execute` could still happen -/
def QuiescentS (v : Svc) : Prop := ∀ st : SStep, st.isFail = false → sstep v st = none

theorem sstep_spec (v v' : Svc) (st : SStep) (hi : SInv v) (h : sstep v st = some v') :
    SInv v' ∧ nu v' + (if st.isFail then 0 else 1) ≤ nu v ∧ env v'.q = env v.q ∧ flags v' = flags v := by
  cases st with
  | execOk =>
    have h : step v .execOk = some v' := h
    obtain ⟨a, b, c⟩ := execOk_nu v v' h
    exact ⟨step_inv _ _ _ hi h, by simp [SStep.isFail]; omega, b, c⟩
  | execFail k =>
    have h : step v (.execFail k) = some v' := h
    have hi' := step_inv _ _ _ hi h
    simp only [step] at h
    split at h
    · cases h
    · split at h
      · cases h; exact ⟨hi', by simp [SStep.isFail, nu], rfl, rfl⟩
      · cases h
  | take =>
    have h : step v .take = some v' := h
    obtain ⟨a, b, c⟩ := take_nu v v' h
    exact ⟨step_inv _ _ _ hi h, by simp [SStep.isFail]; omega, b, c⟩
  | send =>
    simp only [sstep] at h
    cases h3 : Queue.send v.q with
    | none => simp [h3] at h
    | some q' =>
      simp only [h3, Option.map_some, Option.some.injEq] at h
      subst h
      obtain ⟨m1, m2, _, _⟩ := send_mu _ _ h3
      obtain ⟨a, b, c⟩ := queue_step_nu v .send q' rfl h3 (by omega) m2
      exact ⟨next_inv v _ hi, by simp [SStep.isFail]; omega, b, c⟩
  | recv =>
    simp only [sstep] at h
    cases h3 : Queue.recv v.q with
    | none => simp [h3] at h
    | some q' =>
      simp only [h3, Option.map_some, Option.some.injEq] at h
      subst h
      obtain ⟨m1, m2, _⟩ := recv_mu _ _ h3
      obtain ⟨a, b, c⟩ := queue_step_nu v .recv q' rfl h3 m1 m2
      exact ⟨next_inv v _ hi, by simp [SStep.isFail]; omega, b, c⟩
  | fire =>
    simp only [sstep] at h
    cases h3 : Queue.fire v.q with
    | none => simp [h3] at h
    | some q' =>
      simp only [h3, Option.map_some, Option.some.injEq] at h
      subst h
      obtain ⟨m1, m2, _, _⟩ := fire_mu _ _ hi.reach.inv h3
      obtain ⟨a, b, c⟩ := queue_step_nu v .fire q' rfl h3 (by omega) m2
      exact ⟨next_inv v _ hi, by simp [SStep.isFail]; omega, b, c⟩

theorem runS_spec (sched : List SStep) (v v' : Svc) (hi : SInv v) (h : runS v sched = some v') :
    SInv v' ∧ nu v' + (sched.filter (fun st => !st.isFail)).length ≤ nu v ∧
    env v'.q = env v.q ∧ flags v' = flags v := by
  induction sched generalizing v with
  | nil => simp only [runS, Option.some.injEq] at h; subst h; exact ⟨hi, by simp, rfl, rfl⟩
  | cons st rest ih =>
    simp only [runS] at h
    cases h1 : sstep v st with
    | none => simp [h1] at h
    | some v1 =>
      simp only [h1, Option.bind_some] at h
      obtain ⟨a, b, c, d⟩ := sstep_spec v v1 st hi h1
      obtain ⟨a', b', c', d'⟩ := ih v1 a h
      refine ⟨a', ?_, c'.trans c, d'.trans d⟩
      simp only [List.filter_cons]
      cases hf : st.isFail <;> simp [hf] at b ⊢ <;> omega

theorem allApplied_of_quiescent (v : Svc) (hq : v.q.stopped = false) (hv : v.stopped = false)
    (h : QuiescentS v) : AllApplied v := by
  have h1 := h .execOk rfl
  have h2 := h .take rfl
  have h3 := h .send rfl
  have h4 := h .recv rfl
  have h5 := h .fire rfl
  simp only [sstep] at h1 h2 h3 h4 h5
  have hcur : v.cur = none := by
    cases hx : v.cur with
    | none => rfl
    | some r => simp [step, hv, hx] at h1
  have hsc : v.q.sendCh = none := by
    cases hx : v.q.sendCh with
    | none => rfl
    | some r =>
      simp only [step, hv, hcur, hx] at h2
      simp at h2
      split at h2 <;> cases h2
  have h3' : Queue.send v.q = none := by
    cases hx : Queue.send v.q with
    | none => rfl
    | some _ => simp [hx] at h3
  have h4' : Queue.recv v.q = none := by
    cases hx : Queue.recv v.q with
    | none => rfl
    | some _ => simp [hx] at h4
  have h5' : Queue.fire v.q = none := by
    cases hx : Queue.fire v.q with
    | none => rfl
    | some _ => simp [hx] at h5
  have hsg : v.q.sending = none := by
    cases hx : v.q.sending with
    | none => rfl
    | some r => simp [send, hx, hsc] at h3'
  have hb : v.q.batchCh = [] := by
    cases hx : v.q.batchCh with
    | nil => rfl
    | cons a t =>
      cases a <;> simp [recv, hx, hq, hsg] at h4'
      all_goals (split at h4' <;> cases h4')
  have ht : v.q.timer = false := by
    cases hx : v.q.timer with
    | false => rfl
    | true => simp [fire, hx, hq, hsg] at h5'
  exact ⟨⟨hsc, hsg, hb, ht⟩, hcur⟩

end RqModel.QueueSvc

package proxy

// C20 (proxy level): exhaustive correspondence of the real proxy.Proxy (public API,
// mock Store and Cluster) with the Lean model `proxy` (RqModel/Model/Proxy.lean),
// and the property itself evaluated on the calls the real proxy makes:
// every request kind x local outcome (ok / ErrNotLeader / wrapped ErrNotLeader /
// other error) x noForward x LeaderAddr outcome (error / empty / address) x cluster
// outcome (ok / "unauthorized" / other error) x credentials (nil / present) x retries.

import (
	"bytes"
	"context"
	"errors"
	"fmt"
	"io"
	"strings"
	"testing"
	"time"

	clstrPB "github.com/rqlite/rqlite/v10/cluster/proto"
	"github.com/rqlite/rqlite/v10/command/proto"
	"github.com/rqlite/rqlite/v10/store"
)

type c20Call struct {
	what    string
	req     interface{}
	addr    string
	creds   *clstrPB.Credentials
	timeout time.Duration
	retries int
}

type c20Env struct {
	calls     []c20Call
	localErr  error
	addr      string
	addrErr   error
	remoteErr error
	// values the mocks hand back, compared by identity/value
	localRes  []*proto.ExecuteQueryResponse
	localRows []*proto.QueryRows
	remRes    []*proto.ExecuteQueryResponse
	remRows   []*proto.QueryRows
}

type c20Store struct{ e *c20Env }

func (s *c20Store) Execute(ctx context.Context, er *proto.ExecuteRequest) ([]*proto.ExecuteQueryResponse, uint64, error) {
	s.e.calls = append(s.e.calls, c20Call{what: "local:execute", req: er})
	if s.e.localErr != nil {
		return nil, 0, s.e.localErr
	}
	return s.e.localRes, 41, nil
}
func (s *c20Store) Query(ctx context.Context, qr *proto.QueryRequest) ([]*proto.QueryRows, proto.ConsistencyLevel, uint64, error) {
	s.e.calls = append(s.e.calls, c20Call{what: "local:query", req: qr})
	if s.e.localErr != nil {
		return nil, 0, 0, s.e.localErr
	}
	return s.e.localRows, proto.ConsistencyLevel_STRONG, 41, nil
}
func (s *c20Store) Request(ctx context.Context, eqr *proto.ExecuteQueryRequest) ([]*proto.ExecuteQueryResponse, uint64, uint64, error) {
	s.e.calls = append(s.e.calls, c20Call{what: "local:request", req: eqr})
	if s.e.localErr != nil {
		return nil, 0, 0, s.e.localErr
	}
	return s.e.localRes, 3, 41, nil
}
func (s *c20Store) Load(ctx context.Context, lr *proto.LoadRequest) error {
	s.e.calls = append(s.e.calls, c20Call{what: "local:load", req: lr})
	return s.e.localErr
}
func (s *c20Store) Backup(ctx context.Context, br *proto.BackupRequest, dst io.Writer) error {
	s.e.calls = append(s.e.calls, c20Call{what: "local:backup", req: br})
	if s.e.localErr != nil {
		return s.e.localErr
	}
	dst.Write([]byte("LOCAL-BACKUP"))
	return nil
}
func (s *c20Store) Remove(ctx context.Context, rn *proto.RemoveNodeRequest) error {
	s.e.calls = append(s.e.calls, c20Call{what: "local:remove", req: rn})
	return s.e.localErr
}
func (s *c20Store) Stepdown(wait bool, id string) error {
	s.e.calls = append(s.e.calls, c20Call{what: "local:stepdown", req: fmt.Sprintf("%v/%s", wait, id)})
	return s.e.localErr
}
func (s *c20Store) LeaderAddr() (string, error) {
	s.e.calls = append(s.e.calls, c20Call{what: "leaderaddr"})
	return s.e.addr, s.e.addrErr
}

type c20Cluster struct{ e *c20Env }

func (c *c20Cluster) rec(what string, req interface{}, addr string, creds *clstrPB.Credentials, t time.Duration, r int) {
	c.e.calls = append(c.e.calls, c20Call{what: what, req: req, addr: addr, creds: creds, timeout: t, retries: r})
}
func (c *c20Cluster) Execute(ctx context.Context, er *proto.ExecuteRequest, addr string, creds *clstrPB.Credentials, t time.Duration, r int) ([]*proto.ExecuteQueryResponse, uint64, error) {
	c.rec("remote:execute", er, addr, creds, t, r)
	if c.e.remoteErr != nil {
		return nil, 0, c.e.remoteErr
	}
	return c.e.remRes, 77, nil
}
func (c *c20Cluster) Query(ctx context.Context, qr *proto.QueryRequest, addr string, creds *clstrPB.Credentials, t time.Duration, r int) ([]*proto.QueryRows, uint64, error) {
	c.rec("remote:query", qr, addr, creds, t, r)
	if c.e.remoteErr != nil {
		return nil, 0, c.e.remoteErr
	}
	return c.e.remRows, 77, nil
}
func (c *c20Cluster) Request(ctx context.Context, eqr *proto.ExecuteQueryRequest, addr string, creds *clstrPB.Credentials, t time.Duration, r int) ([]*proto.ExecuteQueryResponse, uint64, uint64, error) {
	c.rec("remote:request", eqr, addr, creds, t, r)
	if c.e.remoteErr != nil {
		return nil, 0, 0, c.e.remoteErr
	}
	return c.e.remRes, 5, 77, nil
}
func (c *c20Cluster) Backup(ctx context.Context, br *proto.BackupRequest, addr string, creds *clstrPB.Credentials, t time.Duration, w io.Writer) error {
	c.rec("remote:backup", br, addr, creds, t, 0)
	if c.e.remoteErr != nil {
		return c.e.remoteErr
	}
	w.Write([]byte("LEADER-BACKUP"))
	return nil
}
func (c *c20Cluster) Load(ctx context.Context, lr *proto.LoadRequest, addr string, creds *clstrPB.Credentials, t time.Duration, r int) error {
	c.rec("remote:load", lr, addr, creds, t, r)
	return c.e.remoteErr
}
func (c *c20Cluster) RemoveNode(ctx context.Context, rn *proto.RemoveNodeRequest, addr string, creds *clstrPB.Credentials, t time.Duration) error {
	c.rec("remote:remove", rn, addr, creds, t, 0)
	return c.e.remoteErr
}
func (c *c20Cluster) Stepdown(ctx context.Context, sr *proto.StepdownRequest, addr string, creds *clstrPB.Credentials, t time.Duration) error {
	c.rec("remote:stepdown", fmt.Sprintf("%v/%s", sr.Wait, sr.Id), addr, creds, t, 0)
	return c.e.remoteErr
}

type c20Outcome struct {
	err      error
	servedBy string
	// which values came back
	fromLocal, fromRemote bool
	index                 uint64
}

func TestVerifC20(t *testing.T) {
	rep := vfNewReport("C20", "proxy: exhaustive product of request kind (7) x local outcome (ok, ErrNotLeader, wrapped ErrNotLeader, other error) x noForward x LeaderAddr outcome (error, empty, address) x cluster outcome (ok, error text \"unauthorized\", error text \"not leader\", other error) x credentials (nil, present) x retries (0, 3) through the public API of the real proxy.Proxy with recording mocks; non-trivial when the local store reports not-leader; distinct by the combination")
	rep.Exhaustive = true
	defer rep.Write()

	kinds := []string{"execute", "query", "request", "backup", "load", "remove", "stepdown"}
	locals := []string{"ok", "nl", "nlw", "err"}
	addrs := []string{"err", "empty", "leader:4002"}
	remotes := []string{"ok", "unauth", "nl", "err"}
	var ops, impl []string

	for _, kind := range kinds {
		for _, lo := range locals {
			for _, nf := range []bool{false, true} {
				for _, ad := range addrs {
					for _, ro := range remotes {
						for _, withCreds := range []bool{false, true} {
							for _, retries := range []int{0, 3} {
								e := &c20Env{
									localRes: []*proto.ExecuteQueryResponse{{}}, localRows: []*proto.QueryRows{{}},
									remRes: []*proto.ExecuteQueryResponse{{}, {}}, remRows: []*proto.QueryRows{{}, {}},
								}
								switch lo {
								case "nl":
									e.localErr = store.ErrNotLeader
								case "nlw":
									e.localErr = fmt.Errorf("wrapped: %w", store.ErrNotLeader)
								case "err":
									e.localErr = errors.New("boom")
								}
								switch ad {
								case "err":
									e.addrErr = errors.New("addr-boom")
								case "empty":
								default:
									e.addr = ad
								}
								switch ro {
								case "unauth":
									e.remoteErr = errors.New("unauthorized")
								case "nl": // the node forwarded to is no longer leader: its answer arrives as text
									e.remoteErr = errors.New("not leader")
								case "err":
									e.remoteErr = errors.New("remote-boom")
								}
								var creds *clstrPB.Credentials
								if withCreds {
									creds = &clstrPB.Credentials{Username: "u", Password: "p"}
								}
								p := New(&c20Store{e}, &c20Cluster{e})
								p.SetAPIAddr("api")
								timeout := 11 * time.Nanosecond
								var out c20Outcome
								var req interface{}
								ctx := context.Background()
								switch kind {
								case "execute":
									r := &proto.ExecuteRequest{}
									req = r
									res, idx, addr, err := p.Execute(ctx, r, creds, timeout, retries, nf)
									out = c20Outcome{err: err, servedBy: addr, index: idx, fromLocal: len(res) == 1, fromRemote: len(res) == 2}
								case "query":
									r := &proto.QueryRequest{}
									req = r
									res, idx, addr, err := p.Query(ctx, r, creds, timeout, retries, nf)
									out = c20Outcome{err: err, servedBy: addr, index: idx, fromLocal: len(res) == 1, fromRemote: len(res) == 2}
								case "request":
									r := &proto.ExecuteQueryRequest{}
									req = r
									res, _, idx, addr, err := p.Request(ctx, r, creds, timeout, retries, nf)
									out = c20Outcome{err: err, servedBy: addr, index: idx, fromLocal: len(res) == 1, fromRemote: len(res) == 2}
								case "backup":
									r := &proto.BackupRequest{}
									req = r
									var buf bytes.Buffer
									addr, err := p.Backup(ctx, r, &buf, creds, timeout, nf)
									out = c20Outcome{err: err, servedBy: addr, fromLocal: buf.String() == "LOCAL-BACKUP", fromRemote: buf.String() == "LEADER-BACKUP"}
								case "load":
									r := &proto.LoadRequest{}
									req = r
									addr, err := p.Load(ctx, r, creds, timeout, retries, nf)
									out = c20Outcome{err: err, servedBy: addr}
								case "remove":
									r := &proto.RemoveNodeRequest{Id: "n"}
									req = r
									addr, err := p.Remove(ctx, r, creds, timeout, nf)
									out = c20Outcome{err: err, servedBy: addr}
								case "stepdown":
									req = "true/n9"
									addr, err := p.Stepdown(ctx, true, "n9", creds, timeout, nf)
									out = c20Outcome{err: err, servedBy: addr}
								}

								// canonical rendering of what the real proxy did
								var cs []string
								remoteCalls := 0
								for _, c := range e.calls {
									switch {
									case strings.HasPrefix(c.what, "local:"):
										cs = append(cs, c.what)
									case c.what == "leaderaddr":
										cs = append(cs, c.what)
									default:
										remoteCalls++
										cr := "nil"
										if c.creds != nil {
											cr = "other"
											if c.creds == creds {
												cr = "caller"
											}
										}
										cs = append(cs, fmt.Sprintf("%s:%s:creds=%s:timeout=%d:retries=%d", c.what, vfHex(c.addr), cr, int64(c.timeout), c.retries))
									}
								}
								var res string
								switch {
								case out.err == nil && len(e.calls) == 1:
									res = "local-ok:" + vfHex(out.servedBy)
								case out.err == nil:
									res = "forwarded:" + vfHex(out.servedBy)
								case errors.Is(out.err, ErrNotLeader):
									res = "err-not-leader"
								case errors.Is(out.err, ErrLeaderNotFound):
									res = "err-leader-not-found"
								case errors.Is(out.err, ErrUnauthorized):
									res = "err-unauthorized"
								case out.err.Error() == "not leader":
									res = "err-remote-not-leader"
								case out.err.Error() == "addr-boom":
									res = "err-addr"
								case out.err.Error() == "remote-boom":
									res = "err-remote"
								case out.err.Error() == "boom":
									res = "local-err:" + vfHex(out.servedBy)
								default:
									res = "err-unknown:" + out.err.Error()
								}
								mlo := lo
								if lo == "nlw" {
									mlo = "nl"
								}
								mad := ad
								if ad != "err" && ad != "empty" {
									mad = vfHex(ad)
								}
								nfS, crS := "0", "0"
								if nf {
									nfS = "1"
								}
								if withCreds {
									crS = "1"
								}
								op := fmt.Sprintf("proxy %s %s %s %s %s %s %d", kind, mlo, nfS, mad, ro, crS, retries)
								ops = append(ops, op)
								impl = append(impl, "calls="+strings.Join(cs, ",")+" result="+res)

								// ---- the property itself
								key := fmt.Sprintf("%s local=%s noForward=%v leaderAddr=%s remote=%s creds=%v retries=%d", kind, lo, nf, ad, ro, withCreds, retries)
								notLeader := lo == "nl" || lo == "nlw"
								rep.Case(key, notLeader)
								rep.Count("kind:" + kind)
								rep.Count("local:" + lo)
								replay := map[string]interface{}{"case": key, "calls": cs, "result": res}
								if !nf && errors.Is(out.err, ErrNotLeader) {
									rep.Fail("proxy:"+kind+":ErrNotLeader-returned-although-no-redirect-was-requested", key+": the proxy returned the sentinel ErrNotLeader, which the HTTP handlers answer with DoRedirect (a no-op without the redirect flag): the caller would get an empty 200", replay)
								}
								if notLeader {
									if out.fromLocal || (out.err == nil && remoteCalls == 0) {
										rep.Fail("proxy:"+kind+":local-result-on-follower", key+": the local store said not-leader, yet a local result was returned", replay)
									}
									if nf {
										if remoteCalls != 0 || !errors.Is(out.err, ErrNotLeader) {
											rep.Fail("proxy:"+kind+":forwarded-despite-redirect-request", key+": noForward set, expected ErrNotLeader and no forwarding", replay)
										}
									} else if ad == "leader:4002" {
										if remoteCalls != 1 {
											rep.Fail("proxy:"+kind+":not-forwarded-exactly-once", fmt.Sprintf("%s: %d forwarding calls", key, remoteCalls), replay)
										} else {
											c := e.calls[len(e.calls)-1]
											sameReq := c.req == req
											if kind == "stepdown" {
												sameReq = c.req.(string) == req.(string)
											}
											if c.creds != creds || c.addr != "leader:4002" || !sameReq || c.timeout != timeout {
												rep.Fail("proxy:"+kind+":forwarded-with-other-credentials-or-request", key+": forwarding call did not carry the caller's credentials / request / timeout to the leader address", replay)
											}
											if ro == "ok" && (out.err != nil || out.servedBy != "leader:4002" ||
												((kind == "execute" || kind == "query" || kind == "request") && (!out.fromRemote || out.index != 77)) ||
												(kind == "backup" && !out.fromRemote)) {
												rep.Fail("proxy:"+kind+":leader-results-altered", key+": the leader's results / raft index / address were not returned unchanged", replay)
											}
										}
									}
								} else if remoteCalls != 0 {
									rep.Fail("proxy:"+kind+":forwarded-although-local-answered", key+": forwarding call although the local store did not report not-leader", replay)
								}
							}
						}
					}
				}
			}
		}
	}
	rep.vfCompare("proxy", ops, impl, nil)
	rep.Sample(map[string]interface{}{"combinations": len(ops), "first": ops[0], "first_observed": impl[0]})
}

/-
Denotational meaning of the date/time rewriting (C14): `eval` over an arbitrary compositional
semantics `Sem`, and the proof that the rewritten statement evaluates - at ANY time - to what the
original evaluated to at the pinned instant.
-/
import RqModel.Lemmas.RewriteAllowed
namespace RqModel.Rewrite

/-- SQLite's evaluation of a statement tree as a parameter: any compositional semantics. `now t` is
what a `now` time value denotes when the statement is evaluated at time `t`. -/
structure Sem (V : Type) where
  lit : String → String → V
  ident : String → V
  app : String → List V → List V → V
  ord : List V → V
  ret : List V → V
  node : String → List V → V
  now : Nat → V

/-- the kind that decides where a call reads the clock: timediff needs both of its arguments -/
def evalKind (name : String) (args : Nodes) : FnKind :=
  match classify name with
  | .five => .five
  | .strftime => .strftime
  | .timediff => if args.length > 1 then .timediff else .other
  | _ => .other

mutual
/-- value of a tree evaluated at time `t`. The date/time family reads the clock exactly where SQLite
does: a `now` argument in a time-value position, and an omitted time value. -/
def eval {V : Type} (s : Sem V) (t : Nat) : Node → V
  | .call name args extra => s.app name (evalArgs s t (evalKind name args) 0 args) (evalList s t extra)
  | .lit k v => s.lit k v
  | .ident n => s.ident n
  | .ord kids => s.ord (evalList s t kids)
  | .ret kids => s.ret (evalList s t kids)
  | .other tag kids => s.node tag (evalList s t kids)
def evalList {V : Type} (s : Sem V) (t : Nat) : Nodes → List V
  | .nil => []
  | .cons n ns => eval s t n :: evalList s t ns
/-- argument values of a call of kind `k`; `i` = position of the first argument of the list -/
def evalArgs {V : Type} (s : Sem V) (t : Nat) (k : FnKind) (i : Nat) : Nodes → List V
  | .nil => if implicitPos k i then [s.now t] else []
  | .cons a as => (if timePos k i && isNow a then s.now t else eval s t a) :: evalArgs s t k (i + 1) as
end

theorem evalArgs_plain {V : Type} (s : Sem V) (t : Nat) (k : FnKind) :
    ∀ (ns : Nodes) (i : Nat), (∀ j, j ≥ i → timePos k j = false ∧ implicitPos k j = false) →
      evalArgs s t k i ns = evalList s t ns
  | .nil, i, h => by simp [evalArgs, evalList, (h i (Nat.le_refl i)).2]
  | .cons a as, i, h => by
    simp only [evalArgs, evalList, (h i (Nat.le_refl i)).1, Bool.false_and, Bool.false_eq_true, if_false]
    rw [evalArgs_plain s t k as (i + 1) (fun j hj => h j (by omega))]

theorem pos_other (j : Nat) : timePos .other j = false ∧ implicitPos .other j = false := by
  simp [timePos, implicitPos]

theorem pos_ge2 (k : FnKind) (j : Nat) (h : j ≥ 2) : timePos k j = false ∧ implicitPos k j = false := by
  match j, h with
  | j + 2, _ => cases k <;> simp [timePos, implicitPos]

theorem pos_five_ge1 (j : Nat) (h : j ≥ 1) : timePos .five j = false ∧ implicitPos .five j = false := by
  match j, h with
  | j + 1, _ => simp [timePos, implicitPos]

theorem visitCall_no_replace {c : Cfg} (hr : c.rwRand = false) (st : St) (name : String) (args : Nodes) :
    ∃ tr st1, visitCall c st name args = .keep tr st1 := by
  unfold visitCall
  cases classify name <;> simp only [hr, Bool.and_false, Bool.false_eq_true, if_false]
  · split <;> exact ⟨_, _, rfl⟩
  · split <;> exact ⟨_, _, rfl⟩
  · split <;> exact ⟨_, _, rfl⟩
  · exact ⟨_, _, rfl⟩
  · exact ⟨_, _, rfl⟩
  · exact ⟨_, _, rfl⟩

/-- with time rewriting on, the edit `Visit` chooses is the one of the call's kind -/
theorem visitCall_tr_time {c : Cfg} (ht : c.rwTime = true) (hr : c.rwRand = false)
    {st st1 : St} {name : String} {args : Nodes} {tr : ArgTr}
    (h : visitCall c st name args = .keep tr st1) :
    (evalKind name args = .five ∧ tr = .five) ∨
    (evalKind name args = .strftime ∧ (tr = .strftime ∨ (tr = .none ∧ args = .nil))) ∨
    (evalKind name args = .timediff ∧ tr = .timediff) ∨
    (evalKind name args = .other ∧ tr = .none) := by
  unfold visitCall at h
  unfold evalKind
  cases hk : classify name <;> simp only [hk, ht, hr, Bool.true_and, Bool.and_false, Bool.false_eq_true, if_false, if_true] at h ⊢
  · cases h; simp
  · cases args with
    | nil => simp [Nodes.length] at h; simp [h.1]
    | cons a r => simp [Nodes.length] at h; simp [h.1]
  · by_cases hl : args.length > 1
    · simp [hl] at h ⊢; simp [h.1]
    · simp [hl] at h ⊢; simp [h.1]
  · cases h; simp
  · cases h; simp
  · cases h; simp

theorem applyTr_length_timediff (c : Cfg) (a : Nodes) : (applyTr c .timediff a).length = a.length := by
  cases a with
  | nil => simp [applyTr, replNow0, replNow1]
  | cons x xs => cases xs <;> simp [applyTr, replNow0, replNow1, Nodes.length]

theorem evalKind_congr (name : String) (a b : Nodes)
    (h : classify name = .timediff → a.length = b.length) : evalKind name a = evalKind name b := by
  unfold evalKind
  cases hk : classify name <;> simp
  rw [h hk]

section
variable {V : Type} (s : Sem V) (c : Cfg) (t0 : Nat)

theorem eval_fix (x y : Node) (t : Nat) (k : FnKind) (i : Nat)
    (hlaw : s.lit "jd" c.nowTok = s.now t0) (hp : timePos k i = true)
    (hn : isNow y = isNow x) (he : eval s t y = eval s t0 x) :
    (if timePos k i && isNow (if isNow y then jdLit c else y) then s.now t
      else eval s t (if isNow y then jdLit c else y)) =
    (if timePos k i && isNow x then s.now t0 else eval s t0 x) := by
  by_cases h : isNow y = true
  · have hx : isNow x = true := by rw [← hn]; exact h
    simp only [h, if_true, isNow_jd, Bool.and_false, Bool.false_eq_true, if_false, hp, hx, Bool.and_self]
    simp [eval, jdLit, hlaw]
  · have hx : isNow x = false := by rw [← hn]; simpa using h
    simp [h, hx, he]

mutual
theorem eval_walk (ht : c.rwTime = true) (hr : c.rwRand = false)
    (hlaw : s.lit "jd" c.nowTok = s.now t0) :
    ∀ (n : Node) (st : St) (t : Nat), eval s t (walk c st n).1 = eval s t0 n
  | .call name args extra, st, t => by
    rw [walk]
    obtain ⟨tr, st1, h⟩ := visitCall_no_replace hr st name args
    rw [h]
    simp only [eval]
    have he := evalList_walk ht hr hlaw extra (walkList c st1 args).2 t
    rw [he]
    have hlen := walkList_length c args st1
    have hk : evalKind name (applyTr c tr (walkList c st1 args).1) = evalKind name args := by
      apply evalKind_congr
      intro hc
      have hek : evalKind name args = (if args.length > 1 then FnKind.timediff else FnKind.other) := by
        simp [evalKind, hc]
      rcases visitCall_tr_time ht hr h with ⟨h1, _⟩ | ⟨h1, _⟩ | ⟨_, h2⟩ | ⟨_, h2⟩
      · rw [hek] at h1; split at h1 <;> cases h1
      · rw [hek] at h1; split at h1 <;> cases h1
      · subst h2; rw [applyTr_length_timediff]; exact hlen
      · subst h2; simpa [applyTr] using hlen
    rw [hk]
    congr 1
    have hl := evalList_walk ht hr hlaw args st1 t
    rcases visitCall_tr_time ht hr h with ⟨hkk, htr⟩ | ⟨hkk, htr | ⟨htr, hnil⟩⟩ | ⟨hkk, htr⟩ | ⟨hkk, htr⟩
    · -- date / time / datetime / julianday / unixepoch
      subst htr; rw [hkk]
      cases args with
      | nil => simp [walkList_nil, applyTr, evalArgs, implicitPos, timePos, isNow, eval, jdLit, hlaw]
      | cons x xs =>
        simp only [walkList_cons] at hl ⊢
        simp only [evalList, List.cons.injEq] at hl
        simp only [applyTr, replNow0, evalArgs]
        rw [eval_fix s c t0 x _ t .five 0 hlaw rfl (isNow_walk c st1 x) hl.1,
          evalArgs_plain s t .five _ 1 (fun j hj => pos_five_ge1 j hj),
          evalArgs_plain s t0 .five _ 1 (fun j hj => pos_five_ge1 j hj), hl.2]
    · -- strftime with a format
      subst htr; rw [hkk]
      cases args with
      | nil => simp [walkList_nil, applyTr, replNow1, evalArgs, implicitPos]
      | cons f xs =>
        cases xs with
        | nil =>
          simp only [walkList_cons, walkList_nil] at hl ⊢
          simp only [evalList, List.cons.injEq, and_true] at hl
          simp [applyTr, evalArgs, timePos, implicitPos, isNow, eval, jdLit, hlaw, hl]
        | cons x xs =>
          simp only [walkList_cons] at hl ⊢
          simp only [evalList, List.cons.injEq] at hl
          simp only [applyTr, replNow1, evalArgs]
          rw [eval_fix s c t0 x _ t .strftime 1 hlaw rfl (isNow_walk c _ x) hl.2.1,
            evalArgs_plain s t .strftime _ 2 (fun j hj => pos_ge2 _ j hj),
            evalArgs_plain s t0 .strftime _ 2 (fun j hj => pos_ge2 _ j hj), hl.2.2]
          simp [timePos, hl.1]
    · -- strftime(): nothing to evaluate
      subst htr; subst hnil; rw [hkk]
      simp [walkList_nil, applyTr, evalArgs, implicitPos]
    · -- timediff with both arguments
      subst htr; rw [hkk]
      have h2 : args.length > 1 := by
        unfold evalKind at hkk
        cases hc : classify name <;> simp [hc] at hkk
        exact hkk
      cases args with
      | nil => simp [Nodes.length] at h2
      | cons x xs =>
        cases xs with
        | nil => simp [Nodes.length] at h2
        | cons y ys =>
          simp only [walkList_cons] at hl ⊢
          simp only [evalList, List.cons.injEq] at hl
          simp only [applyTr, replNow0, replNow1, evalArgs]
          rw [eval_fix s c t0 x _ t .timediff 0 hlaw rfl (isNow_walk c st1 x) hl.1,
            eval_fix s c t0 y _ t .timediff 1 hlaw rfl (isNow_walk c _ y) hl.2.1,
            evalArgs_plain s t .timediff _ 2 (fun j hj => pos_ge2 _ j hj),
            evalArgs_plain s t0 .timediff _ 2 (fun j hj => pos_ge2 _ j hj), hl.2.2]
    · -- any other call
      subst htr; rw [hkk]
      simp only [applyTr]
      rw [evalArgs_plain s t .other _ 0 (fun j _ => pos_other j),
        evalArgs_plain s t0 .other _ 0 (fun j _ => pos_other j), hl]
  | .lit _ _, st, t => by simp [walk, eval]
  | .ident _, st, t => by simp [walk, eval]
  | .ord kids, st, t => by
    rw [walk]; simp only [eval]; rw [evalList_walk ht hr hlaw kids _ t]
  | .ret kids, st, t => by
    rw [walk]; simp only [eval]; rw [evalList_walk ht hr hlaw kids _ t]
  | .other _ kids, st, t => by
    rw [walk]; simp only [eval]; rw [evalList_walk ht hr hlaw kids _ t]
theorem evalList_walk (ht : c.rwTime = true) (hr : c.rwRand = false)
    (hlaw : s.lit "jd" c.nowTok = s.now t0) :
    ∀ (ns : Nodes) (st : St) (t : Nat), evalList s t (walkList c st ns).1 = evalList s t0 ns
  | .nil, st, t => by simp [walkList_nil, evalList]
  | .cons n ns, st, t => by
    rw [walkList_cons]
    simp only [evalList]
    rw [eval_walk ht hr hlaw n st t, evalList_walk ht hr hlaw ns _ t]
end
end

end RqModel.Rewrite

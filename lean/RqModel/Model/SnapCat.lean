/-
Model of the public snapshot.Store API as an operation sequence (C09):
  snapshot/store.go   Create, List/ListAll, Open, DueNext, SetDueNext, Reap, NewStore (check)
  snapshot/sink.go    Sink.Open, Write (header decoding, the full-needed gate), Close, Cancel
  snapshot/sink_full.go  FullSink (complete / short / CRC-mismatching payloads)
on top of the directory model of RqModel/Model/SnapFS.lean.

A payload is written with one operation (header plus all bytes): a full payload carries a
database, its WAL segments and a verdict on what FullSink.Close will find (`ok`, `short`: bytes
missing, `badcrc`); an incremental payload names a WAL directory holding the given segments.
`Close` takes the code level: 0 = before `fix:` 32ed8a9 (requirement examined only at the header
Write, cleared by every successful Close); 1 = with 32ed8a9 (an incremental Close looks at the
FULL_NEEDED flag again before consuming the WAL directory); 2 = current source, with 352e039 as
well: Close re-examines DueNext() (flag OR empty store), an incremental snapshot never clears the
requirement, and a full snapshot clears only the requirement that was in force when its sink was
created (`tok`; every SetDueNext(Full) creates a new requirement, counted by `fnGen`).
-/
import RqModel.Model.SnapFS
namespace RqModel.SnapCat
open RqModel.SnapFS

inductive Verdict where
  | ok | short | badcrc
deriving DecidableEq, Repr

inductive Hdr (D : Type) where
  /-- no complete header received -/
  | none
  /-- a header was received and refused (full needed) -/
  | rejected
  | full (d : D) (wals : List Nat) (v : Verdict)
  | inc (wals : List Nat)

structure Sink (D : Type) where
  name   : Nat
  mt     : Meta
  opened : Bool
  hdr    : Hdr D
  /-- the requirement in force when the sink was created, if any -/
  tok    : Option Nat := none

structure CS (D : Type) where
  fs    : FS D := {}
  /-- sink handles of this process -/
  sinks : List (Nat × Sink D) := []
  /-- number of full-snapshot requirements raised so far -/
  fnGen : Nat := 0

variable {D : Type}

def getSink (s : CS D) (h : Nat) : Option (Sink D) := (s.sinks.find? (·.1 == h)).map (·.2)

def putSink (s : CS D) (h : Nat) (k : Sink D) : CS D :=
  { s with sinks := (h, k) :: s.sinks.filter (·.1 != h) }

/-- Store.snapshotCount: non-temporary directories -/
def snapshotCount (fs : FS D) : Nat := (liveDirs fs).length

/-- Store.DueNext = Full -/
def fullDue (fs : FS D) : Bool := fs.fullNeeded || snapshotCount fs == 0

/-- Store.Create: a sink whose Open made `<name>.tmp` -/
def create (s : CS D) (h name index term : Nat) : CS D :=
  let fs := { s.fs.set name (some { tmp := true }) with names := addName s.fs.names name }
  putSink { s with fs := fs } h
    { name := name, mt := ⟨name, index, term⟩, opened := true, hdr := .none,
      tok := if s.fs.fullNeeded then some s.fnGen else none }

/-- Sink.Write of a whole full payload -/
def writeFull (s : CS D) (h : Nat) (d : D) (wals : List Nat) (v : Verdict) : CS D × String :=
  match getSink s h with
  | none => (s, "nosink")
  | some k =>
    match k.hdr with
    | .none => (putSink s h { k with hdr := .full d wals v }, "ok")
    | .full _ _ _ => (s, "err unexpected-data")
    | _ => (s, "err unexpected-data")

/-- Sink.Write of an incremental-file header -/
def writeInc (s : CS D) (h : Nat) (wals : List Nat) : CS D × String :=
  match getSink s h with
  | none => (s, "nosink")
  | some k =>
    match k.hdr with
    | .none =>
      if fullDue s.fs then (putSink s h { k with hdr := .rejected }, "err full-needed")
      else (putSink s h { k with hdr := .inc wals }, "ok")
    | _ => (s, "err unexpected-data")

/-- the snapshot directory a successful Close renames into place -/
def finalDir (k : Sink D) : Option (Dir D) :=
  match k.hdr with
  | .full d wals .ok => some { tmp := false, mt := some k.mt, db := some d, crc := some d, wals := wals }
  | .inc wals => some { tmp := false, mt := some k.mt, wals := wals }
  | _ => none

/-- FULL_NEEDED after a successful Close of a full snapshot -/
def clearedBy (lvl : Nat) (s : CS D) (k : Sink D) : Bool :=
  if lvl ≥ 2 then (if k.tok = some s.fnGen then false else s.fs.fullNeeded) else false

/-- Sink.Close -/
def close (lvl : Nat) (s : CS D) (h : Nat) : CS D × String :=
  match getSink s h with
  | none => (s, "nosink")
  | some k =>
    if !k.opened then (s, "ok")
    else
      let k' := { k with opened := false }
      let s1 := putSink s h k'
      match k.hdr with
      -- no (accepted) header: the temporary directory is removed, nothing is installed (ErrIncomplete)
      | .none => ({ s1 with fs := s1.fs.set k.name none }, "err incomplete")
      | .rejected => ({ s1 with fs := s1.fs.set k.name none }, "err incomplete")
      | .full _ _ .short => (s1, "err incomplete")
      | .full _ _ .badcrc => (s1, "err crc")
      | .full d wals .ok =>
        ({ s1 with fs := { s1.fs.set k.name (finalDir k) with fullNeeded := clearedBy lvl s k } }, "ok")
      | .inc wals =>
        if (lvl = 1 && s.fs.fullNeeded) || (lvl ≥ 2 && fullDue s.fs) then
          ({ s1 with fs := s1.fs.set k.name none }, "err full-needed")
        else
          ({ s1 with fs := { s1.fs.set k.name (finalDir k) with
                fullNeeded := if lvl ≥ 2 then s.fs.fullNeeded else false } }, "ok")

/-- Sink.Close when the final rename fails (the snapshot's final name is taken by a plain file):
every step before the rename has happened, nothing after it -/
def closeRenameFails (s : CS D) (h : Nat) : CS D × String :=
  match getSink s h with
  | none => (s, "nosink")
  | some k =>
    if !k.opened then (s, "ok")
    else
      let s1 := putSink s h { k with opened := false }
      match k.hdr with
      | .none => ({ s1 with fs := s1.fs.set k.name none }, "err incomplete")
      | .rejected => ({ s1 with fs := s1.fs.set k.name none }, "err incomplete")
      | .full _ _ .short => (s1, "err incomplete")
      | .full _ _ .badcrc => (s1, "err crc")
      | .full _ _ .ok => (s1, "err rename")
      | .inc _ =>
        if fullDue s.fs then ({ s1 with fs := s1.fs.set k.name none }, "err full-needed")
        else (s1, "err rename")

/-- Sink.Cancel -/
def cancel (s : CS D) (h : Nat) : CS D × String :=
  match getSink s h with
  | none => (s, "nosink")
  | some k =>
    if !k.opened then (s, "ok")
    else
      let s1 := putSink s h { k with opened := false }
      match k.hdr with
      -- Cancel closes the FullSink first and returns its error WITHOUT removing the temporary directory
      | .full _ _ .short => (s1, "err incomplete")
      | .full _ _ .badcrc => (s1, "err crc")
      | _ => ({ s1 with fs := s.fs.set k.name none }, "ok")

/-- Store.SetDueNext(Full) -/
def setFull (s : CS D) : CS D := { s with fs := { s.fs with fullNeeded := true }, fnGen := s.fnGen + 1 }

/-- process restart: sink handles are gone, NewStore runs check -/
def reopen (A : DbAlg D) (s : CS D) : CS D × String :=
  match check A s.fs with
  | .ok fs => ({ s with fs := fs, sinks := [] }, "ok")
  | .error e => ({ s with sinks := [] }, "err " ++ e)

def reapOp (A : DbAlg D) (s : CS D) (newName : Nat) : CS D × String :=
  match reap A s.fs newName true with
  | .ok fs => ({ s with fs := fs }, "ok")
  | .error e => (s, "err " ++ e)

/-- where inside Sink.Close the process stops (steps of the successful path, in order) -/
inductive CloseCut where
  /-- WAL directory moved into the temporary directory, files not yet redistributed -/
  | walDirMoved
  /-- payload files in place (FullSink closed / WAL files redistributed), meta.json missing or truncated -/
  | filesInPlace
  /-- meta.json written, temporary directory not yet renamed -/
  | metaWritten
  /-- renamed into place, FULL_NEEDED not yet removed -/
  | renamed
deriving DecidableEq, Repr

/-- the directory state an interrupted Close leaves (sink handles die with the process) -/
def crashClose (s : CS D) (h : Nat) (c : CloseCut) : CS D :=
  match getSink s h with
  | none => { s with sinks := [] }
  | some k =>
    match finalDir k, c with
    | some d, .renamed => { s with fs := s.fs.set k.name (some d), sinks := [] }
    | some d, .metaWritten => { s with fs := s.fs.set k.name (some { d with tmp := true }), sinks := [] }
    | some d, .filesInPlace => { s with fs := s.fs.set k.name (some { d with tmp := true, mt := none }), sinks := [] }
    | some d, .walDirMoved => { s with fs := s.fs.set k.name (some { tmp := true }), sinks := [] }
    | none, _ => { s with sinks := [] }

/-! ### operation sequences -/

inductive COp (D : Type) where
  | create (h name index term : Nat)
  | wfull (h : Nat) (d : D) (wals : List Nat) (v : Verdict)
  | winc (h : Nat) (wals : List Nat)
  | close (h : Nat)
  | cancel (h : Nat)
  | closeRenameFails (h : Nat)
  | setFull
  | reopen
  | crashClose (h : Nat) (c : CloseCut)
  | reap (newName : Nat)

/-- one API operation (Close with the full-needed re-check) and its result -/
def stepOp (A : DbAlg D) (s : CS D) : COp D → CS D × String
  | .create h n i t => (create s h n i t, "ok")
  | .wfull h d ws v => writeFull s h d ws v
  | .winc h ws => writeInc s h ws
  | .close h => close 2 s h
  | .cancel h => cancel s h
  | .closeRenameFails h => closeRenameFails s h
  | .setFull => (setFull s, "ok")
  | .reopen => reopen A s
  | .crashClose h c => (crashClose s h c, "ok")
  | .reap nn => reapOp A s nn

def runOps (A : DbAlg D) (s : CS D) (ops : List (COp D)) : CS D := ops.foldl (fun s o => (stepOp A s o).1) s

/-! ### side conditions of the catalog theorems, executable (C09 `OpOK'`; the correspondence run asks the
model whether every generated operation is inside the proven domain) -/

/-- ordering key of a snapshot directory: (term, index, name) -/
def keyOf (n : Nat) (d : Dir D) : Nat × Nat × Nat :=
  match d.mt with
  | some m => (m.term, m.index, n)
  | none => (0, 0, n)

def keyLe (a b : Nat × Nat × Nat) : Prop :=
  a.1 < b.1 ∨ (a.1 = b.1 ∧ (a.2.1 < b.2.1 ∨ (a.2.1 = b.2.1 ∧ a.2.2 ≤ b.2.2)))

instance (a b : Nat × Nat × Nat) : Decidable (keyLe a b) := by unfold keyLe; exact inferInstance

def allClosed (s : CS D) : Bool := s.sinks.all fun p => !p.2.opened

def okB (s : CS D) : COp D → Bool
  | .create _ name index term =>
    (s.fs.dir name).isNone && allClosed s && !s.fs.names.contains name &&
    s.fs.names.all fun n =>
      match s.fs.dir n with
      | some d => d.tmp || decide (keyLe (keyOf n d) (term, index, name))
      | none => true
  | .wfull _ _ ws _ => decide ws.Nodup
  | .winc _ ws => !ws.isEmpty && decide ws.Nodup
  | .crashClose h _ =>
    match getSink s h with
    | none => true
    | some k => k.opened && (match k.hdr with
      | .inc _ => !s.fs.fullNeeded
      | _ => true)
  | .reap nn => allClosed s && (s.fs.dir nn).isNone && !s.fs.names.contains nn
  | _ => true


end RqModel.SnapCat

/-
Helper lemmas for C08 (upgrade crash safety) over RqModel/Model/Upgrade.lean.
Every state an interrupted start can leave is one of a few explicit shapes (`Inv`); each
shape is closed under every crash cut and a complete start takes each of them to the final state.
-/
import RqModel.Model.Upgrade
set_option linter.unusedSimpArgs false
set_option linter.unusedVariables false
namespace RqModel.Upgrade
variable {D : Type}

/-- the v10 snapshot the upgrade must produce -/
def fin (m : Meta) (d : D) : S10 D := { id := m.id, mt := some m, db := some d, crc := some d }

/-- `l` is a pristine v8 directory whose newest snapshot is `m` with database `d` -/
structure C8 (l : List (S8 D)) (m : Meta) (d : D) : Prop where
  newest : newest8 l = some m
  db : ((find8 l m.id).bind (·.db)) = some d

/-- contents the temporary v10 directory can have while the plan runs -/
inductive XOK (m : Meta) : Option (List (S10 D)) → Prop
  | none : XOK m none
  | empty : XOK m (some [])
  | one (y : S10 D) : y.id = m.id → XOK m (some [y])

def stA (j7 : Option (List (S7 D))) (l8 : List (S8 D)) (pt : Bool) : US D :=
  { old7 := j7, old8 := some l8, planTmp := pt }
def stB (l8 : List (S8 D)) (x : Option (List (S10 D))) (m : Meta) : US D :=
  { old8 := some l8, newTmp := x, plan := some (m.id, m) }
def stC (y : Option (List (S8 D))) (x : Option (List (S10 D))) (m : Meta) (d : D) : US D :=
  { old8 := y, newTmp := x, new := some [fin m d], plan := some (m.id, m) }
def stD (m : Meta) (d : D) : US D := { new := some [fin m d] }

theorem newestMeta_ne_nil {l : List Meta} {m : Meta} (h : newestMeta l = some m) : l ≠ [] := by
  intro e; subst e; cases h

theorem C8.nonempty {l : List (S8 D)} {m d} (h : C8 l m d) : l.isEmpty = false := by
  cases l with
  | nil => have := h.newest; simp [newest8, newestMeta] at this
  | cons a l => rfl

/-- operations 1–5 from any admissible temporary directory build the final snapshot -/
theorem exec15 {l8 : List (S8 D)} {m d} (h : C8 l8 m d) {x} (hx : XOK m x) :
    execOps8 (stB l8 x m) m.id m [.mkTmp, .mkSnap, .writeMeta, .copyDb, .calcCrc]
      = .ok (stB l8 (some [fin m d]) m) := by
  have hdb := h.db
  cases hx with
  | none =>
    simp [execOps8, execOp8, stB, has10, upd10, find10, hdb, fin]
  | empty =>
    simp [execOps8, execOp8, stB, has10, upd10, find10, hdb, fin]
  | one y hy =>
    simp [execOps8, execOp8, stB, has10, upd10, find10, hdb, fin, hy]

def ops15 : List Op8 := [.mkTmp, .mkSnap, .writeMeta, .copyDb, .calcCrc]

theorem step15 {l8 : List (S8 D)} {m d} (h : C8 l8 m d) (o : Op8) (ho : o ∈ ops15) {x} (hx : XOK m x) :
    (∀ c : Cut8 D, ∃ x', XOK m x' ∧ partialOp8 (stB l8 x m) m.id o c = stB l8 x' m) ∧
    (∀ s', execOp8 (stB l8 x m) m.id m o = .ok s' → ∃ x', XOK m x' ∧ s' = stB l8 x' m) := by
  have hdb := h.db
  simp only [ops15, List.mem_cons, List.mem_nil_iff, or_false] at ho
  rcases ho with rfl | rfl | rfl | rfl | rfl
  · -- mkTmp
    constructor
    · intro c; cases c <;> exact ⟨x, hx, rfl⟩
    · intro s' hs
      simp only [execOp8, stB, Except.ok.injEq] at hs
      subst hs
      cases hx with
      | none => exact ⟨some [], .empty, rfl⟩
      | empty => exact ⟨some [], .empty, rfl⟩
      | one y hy => exact ⟨some [y], .one y hy, rfl⟩
  · -- mkSnap
    constructor
    · intro c; cases c <;> exact ⟨x, hx, rfl⟩
    · intro s' hs
      simp only [execOp8, stB, Except.ok.injEq] at hs
      subst hs
      cases hx with
      | none => exact ⟨_, .one ⟨m.id, none, none, none⟩ rfl, by simp [stB, has10]⟩
      | empty => exact ⟨_, .one ⟨m.id, none, none, none⟩ rfl, by simp [stB, has10]⟩
      | one y hy => exact ⟨some [y], .one y hy, by simp [stB, has10, hy]⟩
  · -- writeMeta
    constructor
    · intro c
      cases c with
      | metaTrunc =>
        cases hx with
        | none => exact ⟨none, .none, rfl⟩
        | empty => exact ⟨some [], .empty, by simp [partialOp8, stB, upd10]⟩
        | one y hy => exact ⟨_, .one { y with mt := none } hy, by simp [partialOp8, stB, upd10, hy]⟩
      | none => exact ⟨x, hx, rfl⟩
      | fileTrunc => exact ⟨x, hx, rfl⟩
      | rmJunk j => exact ⟨x, hx, rfl⟩
    · intro s' hs
      cases hx with
      | none => simp only [execOp8, stB, Except.ok.injEq] at hs; subst hs; exact ⟨none, .none, rfl⟩
      | empty =>
        simp only [execOp8, stB, Except.ok.injEq] at hs; subst hs
        exact ⟨some [], .empty, by simp [stB, upd10]⟩
      | one y hy =>
        simp only [execOp8, stB, Except.ok.injEq] at hs; subst hs
        exact ⟨_, .one { y with mt := some m } hy, by simp [stB, upd10, hy]⟩
  · -- copyDb
    constructor
    · intro c
      cases c with
      | fileTrunc =>
        cases hx with
        | none => exact ⟨none, .none, by simp [partialOp8, stB, hdb]⟩
        | empty => exact ⟨some [], .empty, by simp [partialOp8, stB, upd10, hdb]⟩
        | one y hy => exact ⟨_, .one { y with db := none } hy, by simp [partialOp8, stB, upd10, hy, hdb]⟩
      | none => exact ⟨x, hx, rfl⟩
      | metaTrunc => exact ⟨x, hx, rfl⟩
      | rmJunk j => exact ⟨x, hx, rfl⟩
    · intro s' hs
      cases hx with
      | none => simp [execOp8, stB, hdb] at hs
      | empty => simp [execOp8, stB, hdb, find10] at hs
      | one y hy =>
        simp only [execOp8, stB, hdb, Option.bind_some, find10, List.find?_cons, hy, beq_self_eq_true,
          Except.ok.injEq] at hs
        subst hs
        exact ⟨_, .one { y with db := some d } hy, by simp [stB, upd10, hy]⟩
  · -- calcCrc
    constructor
    · intro c
      cases c with
      | fileTrunc =>
        cases hx with
        | none => exact ⟨none, .none, rfl⟩
        | empty => exact ⟨some [], .empty, by simp [partialOp8, stB, find10]⟩
        | one y hy =>
          by_cases hd : y.db.isSome
          · exact ⟨_, .one { y with crc := none } hy, by simp [partialOp8, stB, upd10, find10, hy, hd]⟩
          · exact ⟨_, .one y hy, by simp [partialOp8, stB, upd10, find10, hy, hd]⟩
      | none => exact ⟨x, hx, rfl⟩
      | metaTrunc => exact ⟨x, hx, rfl⟩
      | rmJunk j => exact ⟨x, hx, rfl⟩
    · intro s' hs
      cases hx with
      | none => simp [execOp8, stB] at hs
      | empty => simp [execOp8, stB, find10] at hs
      | one y hy =>
        cases hyd : y.db with
        | none => simp [execOp8, stB, find10, hy, hyd] at hs
        | some dd =>
          simp only [execOp8, stB, Option.bind_some, find10, List.find?_cons, hy, beq_self_eq_true, hyd,
            Except.ok.injEq] at hs
          subst hs
          exact ⟨_, .one { y with crc := some dd } hy, by simp [stB, upd10, hy]⟩



theorem runCut8_nil (id : Nat) (m : Meta) (k) (c : Cut8 D) (s : US D) : runCut8 id m [] k c s = s := by
  cases k <;> rfl

theorem runCut8_append_ok (id : Nat) (m : Meta) (a b : List Op8) (c : Cut8 D) :
    ∀ (k : Nat) (s s' : US D), execOps8 s id m a = .ok s' →
      runCut8 id m (a ++ b) k c s = if k < a.length then runCut8 id m a k c s else runCut8 id m b (k - a.length) c s' := by
  induction a with
  | nil =>
    intro k s s' h
    simp only [execOps8, Except.ok.injEq] at h
    simp [h]
  | cons o a ih =>
    intro k s s' h
    simp only [execOps8] at h
    cases h1 : execOp8 s id m o with
    | error e => rw [h1] at h; cases h
    | ok s1 =>
      rw [h1] at h
      cases k with
      | zero => simp [runCut8]
      | succ k =>
        simp only [List.cons_append, runCut8, h1, List.length_cons, Nat.add_lt_add_iff_right, Nat.add_sub_add_right]
        exact ih k s1 s' h

/-- states inside the plan before the rename -/
def IsB (l8 : List (S8 D)) (m : Meta) (t : US D) : Prop := ∃ x, XOK m x ∧ t = stB l8 x m

theorem runCut15 {l8 : List (S8 D)} {m d} (h : C8 l8 m d) (c : Cut8 D) :
    ∀ (ops : List Op8), (∀ o ∈ ops, o ∈ ops15) → ∀ (k : Nat) x, XOK m x →
      IsB l8 m (runCut8 m.id m ops k c (stB l8 x m)) := by
  intro ops
  induction ops with
  | nil => intro _ k x hx; rw [runCut8_nil]; exact ⟨x, hx, rfl⟩
  | cons o ops ih =>
    intro hall k x hx
    have ho := hall o List.mem_cons_self
    obtain ⟨hp, he⟩ := step15 h o ho hx
    cases k with
    | zero => simp only [runCut8]; exact hp c
    | succ k =>
      simp only [runCut8]
      cases h1 : execOp8 (stB l8 x m) m.id m o with
      | error e => exact ⟨x, hx, rfl⟩
      | ok s1 =>
        obtain ⟨x', hx', rfl⟩ := he s1 h1
        exact ih (fun o' ho' => hall o' (List.mem_cons_of_mem _ ho')) k x' hx'

theorem planOps_eq : planOps = ops15 ++ [Op8.rename, Op8.rmOld] := rfl

/-- the states a crash inside the plan can leave -/
def IsBC (l8 : List (S8 D)) (m : Meta) (d : D) (t : US D) : Prop :=
  IsB l8 m t ∨ ∃ y, t = stC y none m d

theorem runCut_plan8 {l8 : List (S8 D)} {m d} (h : C8 l8 m d) (k : Nat) (c : Cut8 D) {x} (hx : XOK m x) :
    IsBC l8 m d (runCut8 m.id m planOps k c (stB l8 x m)) := by
  have e15 : execOps8 (stB l8 x m) m.id m ops15 = .ok (stB l8 (some [fin m d]) m) := exec15 h hx
  rw [planOps_eq, runCut8_append_ok _ _ _ _ _ _ _ _ e15]
  split
  · exact Or.inl (runCut15 h c ops15 (fun _ ho => ho) k x hx)
  · generalize k - ops15.length = j
    cases j with
    | zero =>
      left
      refine ⟨_, .one (fin m d) rfl, ?_⟩
      cases c <;> rfl
    | succ j =>
      cases j with
      | zero =>
        right
        cases c with
        | rmJunk junk => exact ⟨some junk, by simp [runCut8, execOp8, partialOp8, stB, stC]⟩
        | none => exact ⟨some l8, by simp [runCut8, execOp8, partialOp8, stB, stC]⟩
        | metaTrunc => exact ⟨some l8, by simp [runCut8, execOp8, partialOp8, stB, stC]⟩
        | fileTrunc => exact ⟨some l8, by simp [runCut8, execOp8, partialOp8, stB, stC]⟩
      | succ j =>
        right
        exact ⟨none, by simp [runCut8, execOp8, stB, stC, runCut8_nil]⟩

theorem exec_plan8 {l8 : List (S8 D)} {m d} (h : C8 l8 m d) {x} (hx : XOK m x) :
    execOps8 (stB l8 x m) m.id m planOps = .ok (stC none none m d) := by
  have e15 : execOps8 (stB l8 x m) m.id m ops15 = .ok (stB l8 (some [fin m d]) m) := exec15 h hx
  -- run the first five then the last two
  have : ∀ s s' : US D, execOps8 s m.id m ops15 = .ok s' →
      execOps8 s m.id m planOps = execOps8 s' m.id m [Op8.rename, Op8.rmOld] := by
    intro s s' hs
    rw [planOps_eq]
    generalize ops15 = a at hs
    induction a generalizing s with
    | nil => simp only [execOps8, Except.ok.injEq] at hs; subst hs; rfl
    | cons o a ih =>
      simp only [execOps8] at hs
      cases h1 : execOp8 s m.id m o with
      | error e => rw [h1] at hs; cases hs
      | ok s1 =>
        rw [h1] at hs
        simp only [List.cons_append, execOps8, h1]
        exact ih s1 hs
  rw [this _ _ e15]
  simp [execOps8, execOp8, stB, stC]



/-- every state interrupted starts can leave, for a v8 store `l8` (original, or built from v7) -/
inductive Inv (l8 : List (S8 D)) (m : Meta) (d : D) : US D → Prop
  | A (j7 pt) : Inv l8 m d (stA j7 l8 pt)
  | B (x) : XOK m x → Inv l8 m d (stB l8 x m)
  | C (y x) : Inv l8 m d (stC y x m d)
  | D : Inv l8 m d (stD m d)

theorem u78_A (e : D) (j7 : Option (List (S7 D))) (l8 : List (S8 D)) (pt : Bool) :
    u78 e (stA j7 l8 pt) = .ok (stA none l8 pt) := by
  cases j7 with
  | none => rfl
  | some l => simp only [u78, stA]; split <;> rfl

theorem u810_A {l8 : List (S8 D)} {m d} (h : C8 l8 m d) (pt : Bool) :
    u810Core (stA none l8 pt) = .ok (stD m d) := by
  have hne := h.nonempty
  have hx := exec_plan8 h (XOK.none (m := m) (D := D))
  simp only [stB] at hx
  simp [u810Core, u810With, stA, hne, h.newest, hx, stC, stD]

theorem u810_B {l8 : List (S8 D)} {m d} (h : C8 l8 m d) {x} (hx : XOK m x) :
    u810Core (stB l8 x m) = .ok (stD m d) := by
  have := exec_plan8 h hx
  simp only [stB] at this
  simp [u810Core, u810With, u810Resume, stB, this, stC, stD]

theorem u810_C (y : Option (List (S8 D))) (x) (m : Meta) (d : D) :
    u810Core (stC y x m d) = .ok (stD m d) := by
  simp [u810Core, u810With, u810Resume, stC, stD]

theorem u810_D (m : Meta) (d : D) : u810Core (stD m d) = .ok (stD m d) := by
  simp [u810Core, u810With, stD]

theorem u78_noold (e : D) (s : US D) (h7 : s.old7 = none) (ht : s.old8tmp = none) : u78 e s = .ok s := by
  cases s
  simp only at h7 ht
  subst h7 ht
  rfl

/-- a complete start from any reachable state ends in the upgraded store -/
theorem startCore_inv {l8 : List (S8 D)} {m d} (e : D) (h : C8 l8 m d) {s : US D} (hs : Inv l8 m d s) :
    startCore e s = .ok (stD m d) := by
  cases hs with
  | A j7 pt => simp only [startCore, u78_A, u810_A h]
  | B x hx => rw [startCore, u78_noold e _ rfl rfl]; exact u810_B h hx
  | C y x => rw [startCore, u78_noold e _ rfl rfl]; exact u810_C y x m d
  | D => rw [startCore, u78_noold e _ rfl rfl]; exact u810_D m d

theorem u78Cut_noold (e : D) (s : US D) (h7 : s.old7 = none) (ht : s.old8tmp = none) (c : Cut78 D) :
    u78Cut e s c = s := by
  cases s
  simp only at h7 ht
  subst h7 ht
  cases c <;> rfl

theorem isBC_inv {l8 : List (S8 D)} {m d} {t : US D} (h : IsBC l8 m d t) : Inv l8 m d t := by
  rcases h with ⟨x, hx, rfl⟩ | ⟨y, rfl⟩
  · exact .B x hx
  · exact .C y none

/-- an interrupted start keeps the state in `Inv` -/
theorem startCoreCut_inv {l8 : List (S8 D)} {m d} (e : D) (h : C8 l8 m d) {s : US D} (hs : Inv l8 m d s)
    (c : StartCut D) : Inv l8 m d (startCutCore e s c) := by
  have hne := h.nonempty
  cases hs with
  | A j7 pt =>
    cases c with
    | in78 c =>
      simp only [startCutCore]
      cases c with
      | start => exact .A j7 pt
      | rmTmp junk => exact .A j7 pt
      | building junk =>
        cases j7 with
        | none => exact .A none pt
        | some l => simp only [u78Cut, stA]; split <;> exact .A (some l) pt
      | rmOld junk =>
        cases j7 with
        | none => exact .A none pt
        | some l =>
          simp only [u78Cut, stA]
          split
          · split
            · exact .A none pt
            · exact .A (some l) pt
          · exact .A junk pt
    | in810 c =>
      simp only [startCutCore, u78_A]
      cases c with
      | start => exact .A none pt
      | planTmp => simp [u810CutCore, stA, hne, h.newest]; exact .A none true
      | inPlan k c8 =>
        simp only [u810CutCore, stA, hne, h.newest, Option.isSome_none, Bool.or_self, Bool.false_eq_true, if_false]
        exact isBC_inv (runCut_plan8 h k c8 .none)
      | planDone =>
        simp only [u810CutCore, stA, hne, h.newest, Option.isSome_none, Bool.or_self, Bool.false_eq_true, if_false]
        exact isBC_inv (runCut_plan8 h _ _ .none)
      | cleanup tj oj => exact .A none false
  | B x hx =>
    cases c with
    | in78 c => simp only [startCutCore]; rw [u78Cut_noold e _ rfl rfl]; exact .B x hx
    | in810 c =>
      simp only [startCutCore]
      rw [u78_noold e _ rfl rfl]
      cases c with
      | start => exact .B x hx
      | planTmp => exact .B x hx
      | inPlan k c8 =>
        simp only [u810CutCore, stB, Option.isSome_none, Bool.false_eq_true, if_false]
        exact isBC_inv (runCut_plan8 h k c8 hx)
      | planDone =>
        simp only [u810CutCore, stB, Option.isSome_none, Bool.false_eq_true, if_false]
        exact isBC_inv (runCut_plan8 h _ _ hx)
      | cleanup tj oj => exact .B x hx
  | C y x =>
    cases c with
    | in78 c => simp only [startCutCore]; rw [u78Cut_noold e _ rfl rfl]; exact .C y x
    | in810 c =>
      simp only [startCutCore]
      rw [u78_noold e _ rfl rfl]
      cases c with
      | start => exact .C y x
      | planTmp => exact .C y x
      | inPlan k c8 => exact .C y x
      | planDone => exact .C y x
      | cleanup tj oj => exact .C _ _
  | D =>
    cases c with
    | in78 c => simp only [startCutCore]; rw [u78Cut_noold e _ rfl rfl]; exact .D
    | in810 c =>
      simp only [startCutCore]
      rw [u78_noold e _ rfl rfl]
      cases c <;> exact .D


/-! ### starting from a v7 store -/

/-- `l7` is a pristine v7 directory whose newest snapshot is `m` with database `d` -/
structure C7 (e : D) (l7 : List (S7 D)) (m : Meta) (d : D) : Prop where
  newest : newest7 l7 = some m
  state : ∃ x, find7 l7 m.id = some x ∧ ((x.st = .nodata ∧ d = e) ∨ x.st = .data d)

/-- what Upgrade7To8 builds -/
def b8 (m : Meta) (d : D) : List (S8 D) := [{ id := m.id, dir := true, mt := some m, db := some d }]

theorem C7.build {e : D} {l7 : List (S7 D)} {m d} (h : C7 e l7 m d) : build8 e l7 = .ok (b8 m d) := by
  obtain ⟨x, hf, hs⟩ := h.state
  rcases hs with ⟨hs, rfl⟩ | hs
  · simp [build8, h.newest, hf, hs, b8]
  · simp [build8, h.newest, hf, hs, b8]

theorem C7.nonempty {e : D} {l7 : List (S7 D)} {m d} (h : C7 e l7 m d) : l7.isEmpty = false := by
  cases l7 with
  | nil => have := h.newest; simp [newest7, newestMeta] at this
  | cons a l => rfl

theorem b8_C8 (m : Meta) (d : D) : C8 (b8 m d) m d := by
  constructor
  · simp [newest8, b8, newestMeta]
  · simp [find8, b8]

def stP (l7 : List (S7 D)) (z : Option (List (S8 D))) : US D := { old7 := some l7, old8tmp := z }

inductive Inv7 (l7 : List (S7 D)) (m : Meta) (d : D) : US D → Prop
  | P (z) : Inv7 l7 m d (stP l7 z)
  | later (s) : Inv (b8 m d) m d s → Inv7 l7 m d s

theorem u78_P {e : D} {l7 : List (S7 D)} {m d} (h : C7 e l7 m d) (z) :
    u78 e (stP l7 z) = .ok (stA none (b8 m d) false) := by
  simp [u78, stP, h.nonempty, h.build, stA]

theorem startCore_inv7 {e : D} {l7 : List (S7 D)} {m d} (h : C7 e l7 m d) {s : US D} (hs : Inv7 l7 m d s) :
    startCore e s = .ok (stD m d) := by
  cases hs with
  | P z => simp only [startCore, u78_P h, u810_A (b8_C8 m d)]
  | later s hs => exact startCore_inv e (b8_C8 m d) hs

theorem startCoreCut_inv7 {e : D} {l7 : List (S7 D)} {m d} (h : C7 e l7 m d) {s : US D} (hs : Inv7 l7 m d s)
    (c : StartCut D) : Inv7 l7 m d (startCutCore e s c) := by
  cases hs with
  | later s hs => exact .later _ (startCoreCut_inv e (b8_C8 m d) hs c)
  | P z =>
    cases c with
    | in78 c =>
      simp only [startCutCore]
      cases c with
      | start => exact .P z
      | rmTmp junk =>
        cases z with
        | none => exact .P none
        | some z0 => exact .P (some junk)
      | building junk =>
        simp only [u78Cut, stP, h.nonempty, Bool.false_eq_true, if_false, Option.isSome_none]
        exact .P (some junk)
      | rmOld junk =>
        simp only [u78Cut, stP, h.nonempty, Bool.false_eq_true, if_false, Option.isSome_none, h.build]
        exact .later _ (.A junk false)
    | in810 c =>
      have : startCutCore e (stP l7 z) (.in810 c) = startCutCore e (stA none (b8 m d) false) (.in810 c) := by
        simp only [startCutCore, u78_P h, u78_A]
      rw [this]
      exact .later _ (startCoreCut_inv e (b8_C8 m d) (.A none false) (.in810 c))

theorem foldl_startCutCore_inv {l8 : List (S8 D)} {m d} (e : D) (h : C8 l8 m d) (cuts : List (StartCut D)) :
    ∀ {s : US D}, Inv l8 m d s → Inv l8 m d (cuts.foldl (startCutCore e) s) := by
  induction cuts with
  | nil => intro s hs; exact hs
  | cons c cs ih => intro s hs; exact ih (startCoreCut_inv e h hs c)

theorem foldl_startCutCore_inv7 {e : D} {l7 : List (S7 D)} {m d} (h : C7 e l7 m d) (cuts : List (StartCut D)) :
    ∀ {s : US D}, Inv7 l7 m d s → Inv7 l7 m d (cuts.foldl (startCutCore e) s) := by
  induction cuts with
  | nil => intro s hs; exact hs
  | cons c cs ih => intro s hs; exact ih (startCoreCut_inv7 h hs c)

/-! ### the empty-new-directory fix as a layer over the core -/

def setNew (x : Option (List (S10 D))) (s : US D) : US D := { s with new := x }

theorem u78_setNew (e : D) (s : US D) (x) :
    u78 e (setNew x s) = match u78 e s with
      | .ok s1 => .ok (setNew x s1)
      | .error err => .error err := by
  cases s with
  | mk o7 o8t o8 nt nw pl pt =>
    cases o7 with
    | none => rfl
    | some l =>
      by_cases h1 : l.isEmpty = true <;> by_cases h2 : o8.isSome = true <;> simp [u78, setNew, h1, h2]
      cases build8 e l <;> simp

theorem u78Cut_setNew (e : D) (s : US D) (x) (c : Cut78 D) :
    u78Cut e (setNew x s) c = setNew x (u78Cut e s c) := by
  cases s with
  | mk o7 o8t o8 nt nw pl pt =>
    cases c with
    | start => rfl
    | rmTmp junk => by_cases h : o8t.isSome = true <;> simp [u78Cut, setNew, h]
    | building junk =>
      cases o7 with
      | none => rfl
      | some l =>
        by_cases h1 : l.isEmpty = true <;> by_cases h2 : o8.isSome = true <;> simp [u78Cut, setNew, h1, h2]
    | rmOld junk =>
      cases o7 with
      | none => rfl
      | some l =>
        by_cases h1 : l.isEmpty = true <;> by_cases h2 : o8.isSome = true <;> by_cases h3 : junk.isNone = true <;>
          simp [u78Cut, setNew, h1, h2, h3] <;> (cases build8 e l <;> simp)


theorem setNew_self (s : US D) : setNew s.new s = s := by cases s; rfl

theorem u78_new {e : D} {s s1 : US D} (h : u78 e s = .ok s1) : s1.new = s.new := by
  have := u78_setNew e s s.new
  rw [setNew_self, h] at this
  simp only [Except.ok.injEq] at this
  rw [this]; rfl

theorem u78Cut_new (e : D) (s : US D) (c : Cut78 D) : (u78Cut e s c).new = s.new := by
  have := u78Cut_setNew e s s.new c
  rw [setNew_self] at this
  rw [this]; rfl

theorem rmEmptyNew_of_ne {s : US D} (h : s.new ≠ some []) : rmEmptyNew s = s := by
  unfold rmEmptyNew
  split
  · rename_i h'; exact absurd h' h
  · rfl

theorem rmEmptyNew_setNew {t : US D} (h : t.new = none) : rmEmptyNew (setNew (some []) t) = t := by
  cases t; simp only at h; subst h; rfl

theorem u810Cut_of_ne {s : US D} (h : s.new ≠ some []) (c : Cut810 D) : u810Cut s c = u810CutCore s c := by
  cases c <;> simp [u810Cut, rmEmptyNew_of_ne h] <;> rfl

theorem start_eq_core (e : D) {s : US D} (h : s.new ≠ some []) : start e s = startCore e s := by
  unfold start startCore
  cases hu : u78 e s with
  | error err => rfl
  | ok s1 =>
    simp only [u810]
    rw [rmEmptyNew_of_ne]
    rw [u78_new hu]; exact h

theorem startCut_eq_core (e : D) {s : US D} (h : s.new ≠ some []) (c : StartCut D) :
    startCut e s c = startCutCore e s c := by
  cases c with
  | in78 c => rfl
  | in810 c =>
    simp only [startCut, startCutCore]
    cases hu : u78 e s with
    | error err => rfl
    | ok s1 => exact u810Cut_of_ne (by rw [u78_new hu]; exact h) c

/-- what the core (the code before the empty-directory fix) guarantees on its own state family -/
structure CoreOK (e : D) (P : US D → Prop) (fin : US D) : Prop where
  start : ∀ s, P s → startCore e s = .ok fin
  cut : ∀ s c, P s → P (startCutCore e s c)
  newOK : ∀ s, P s → s.new ≠ some []

/-- the state family with the data check of -auto-restore: additionally an empty new directory -/
def Lift (P : US D → Prop) (s : US D) : Prop := P s ∨ ∃ t, P t ∧ t.new = none ∧ s = setNew (some []) t

theorem start_lift {e : D} {P : US D → Prop} {fin : US D} (ok : CoreOK e P fin) {s : US D} (hs : Lift P s) :
    start e s = .ok fin := by
  rcases hs with hp | ⟨t, hp, hn, rfl⟩
  · rw [start_eq_core e (ok.newOK s hp)]; exact ok.start s hp
  · have hc := ok.start t hp
    unfold start
    unfold startCore at hc
    rw [u78_setNew]
    cases hu : u78 e t with
    | error err => rw [hu] at hc; cases hc
    | ok s1 =>
      rw [hu] at hc
      simp only [u810]
      rw [rmEmptyNew_setNew (by rw [u78_new hu]; exact hn)]
      exact hc

theorem startCut_lift {e : D} {P : US D → Prop} {fin : US D} (ok : CoreOK e P fin) {s : US D} (hs : Lift P s)
    (c : StartCut D) : Lift P (startCut e s c) := by
  rcases hs with hp | ⟨t, hp, hn, rfl⟩
  · rw [startCut_eq_core e (ok.newOK s hp)]; exact Or.inl (ok.cut s c hp)
  · cases c with
    | in78 c =>
      refine Or.inr ⟨startCutCore e t (.in78 c), ok.cut t _ hp, ?_, ?_⟩
      · show (u78Cut e t c).new = none
        rw [u78Cut_new]; exact hn
      · exact u78Cut_setNew e t _ c
    | in810 c =>
      have hcore := ok.cut t (.in810 c) hp
      simp only [startCut, startCutCore] at hcore ⊢
      rw [u78_setNew]
      cases hu : u78 e t with
      | error err =>
        rw [hu] at hcore
        exact Or.inr ⟨t, hp, hn, rfl⟩
      | ok s1 =>
        rw [hu] at hcore
        have hn1 : s1.new = none := by rw [u78_new hu]; exact hn
        simp only
        cases c with
        | start => exact Or.inr ⟨s1, hcore, hn1, rfl⟩
        | planTmp => simp only [u810Cut, rmEmptyNew_setNew hn1]; exact Or.inl hcore
        | inPlan k c' => simp only [u810Cut, rmEmptyNew_setNew hn1]; exact Or.inl hcore
        | planDone => simp only [u810Cut, rmEmptyNew_setNew hn1]; exact Or.inl hcore
        | cleanup a b => simp only [u810Cut, rmEmptyNew_setNew hn1]; exact Or.inl hcore

theorem hasData_lift {e : D} {P : US D → Prop} {fin : US D} (ok : CoreOK e P fin) {s : US D} (hs : Lift P s) :
    Lift P (hasData s) := by
  rcases hs with hp | ⟨t, hp, hn, rfl⟩
  · cases hn : s.new with
    | none =>
      refine Or.inr ⟨s, hp, hn, ?_⟩
      cases s; simp only at hn; subst hn; rfl
    | some l =>
      have : hasData s = s := by simp [hasData, hn]
      rw [this]; exact Or.inl hp
  · exact Or.inr ⟨t, hp, hn, rfl⟩

/-- one interrupted start, optionally preceded by the data check -/
def startEvent (e : D) (s : US D) (ev : Bool × StartCut D) : US D :=
  startCut e (if ev.1 then hasData s else s) ev.2

theorem foldl_event_lift {e : D} {P : US D → Prop} {fin : US D} (ok : CoreOK e P fin) (evs : List (Bool × StartCut D)) :
    ∀ {s : US D}, Lift P s → Lift P (evs.foldl (startEvent e) s) := by
  induction evs with
  | nil => intro s hs; exact hs
  | cons ev evs ih =>
    intro s hs
    apply ih
    unfold startEvent
    cases ev.1
    · exact startCut_lift ok hs _
    · exact startCut_lift ok (hasData_lift ok hs) _

theorem coreOK8 {l8 : List (S8 D)} {m d} (e : D) (h : C8 l8 m d) : CoreOK e (Inv l8 m d) (stD m d) where
  start s hs := startCore_inv e h hs
  cut s c hs := startCoreCut_inv e h hs c
  newOK s hs := by cases hs <;> simp [stA, stB, stC, stD]

theorem coreOK7 {e : D} {l7 : List (S7 D)} {m d} (h : C7 e l7 m d) : CoreOK e (Inv7 l7 m d) (stD m d) where
  start s hs := startCore_inv7 h hs
  cut s c hs := startCoreCut_inv7 h hs c
  newOK s hs := by
    cases hs with
    | P z => simp [stP]
    | later s hs => cases hs <;> simp [stA, stB, stC, stD]



/-! ### the data check answers "has data" in every reachable state -/

theorem hasDataAnswer_setNew_empty {t : US D} (h : hasDataAnswer t = true) (hn : t.new = none) :
    hasDataAnswer (setNew (some []) t) = true := by
  cases t; simp only at hn; subst hn
  simpa [hasDataAnswer, setNew] using h

theorem hasDataAnswer_inv {l8 : List (S8 D)} {m d} (h : C8 l8 m d) {s : US D} (hs : Inv l8 m d s) :
    hasDataAnswer s = true := by
  have hne := h.nonempty
  cases hs with
  | A j7 pt => simp [hasDataAnswer, stA, nonEmptyDir, hne]
  | B x hx => simp [hasDataAnswer, stB, nonEmptyDir, hne]
  | C y x => simp [hasDataAnswer, stC, fin]
  | D => simp [hasDataAnswer, stD, fin]

theorem hasDataAnswer_inv7 {e : D} {l7 : List (S7 D)} {m d} (h : C7 e l7 m d) {s : US D} (hs : Inv7 l7 m d s) :
    hasDataAnswer s = true := by
  cases hs with
  | P z => simp [hasDataAnswer, stP, nonEmptyDir, h.nonempty]
  | later s hs => exact hasDataAnswer_inv (b8_C8 m d) hs

theorem hasDataAnswer_lift {P : US D → Prop} (hP : ∀ s, P s → hasDataAnswer s = true) {s : US D} (hs : Lift P s) :
    hasDataAnswer s = true := by
  rcases hs with hp | ⟨t, hp, hn, rfl⟩
  · exact hP s hp
  · exact hasDataAnswer_setNew_empty (hP t hp) hn

end RqModel.Upgrade

package db

// C15 (specification side of guard_complete): EXHAUSTIVE enumeration of short texts
// over an alphabet of the lexically interesting symbols, executed on real SQLite.
// guard_complete says the guard refuses exactly the texts whose SQLite-style
// tokenisation contains a dangerous statement; that the tokenisation agrees with
// SQLite's own lexer is not proved — here it is checked exhaustively on
//   (a) all symbol sequences up to length N,
//   (b) "PRAGMA" followed by all sequences up to length N,
//   (c) any one symbol, then "PRAGMA", then all sequences up to length N-1,
//   (d) "PRAGMA", one symbol, "synchronous", then all sequences up to length N-1,
//   (e) "PRAGMA main" followed by all sequences up to length N
// (N = 4 in the thorough tier): whatever changes `synchronous` on the write
// connection must have been refused by the real guard, and the Lean model of the
// guard must agree with the real guard on every text.

import (
	"fmt"
	"os"
	"testing"
)

var c15Alphabet = []string{" ", "\v", "\f", "\n", ";", "-", "/", "*", "'", "\"", "`", "[", "]", ".", "=", "(", ")", "1", "x", "PRAGMA", "synchronous", "main"}

// c15Enumerate calls f with every sequence of at most n symbols (including the empty one)
func c15Enumerate(n int, prefix string, f func(string)) {
	f(prefix)
	if n == 0 {
		return
	}
	for _, s := range c15Alphabet {
		c15Enumerate(n-1, prefix+s, f)
	}
}

func TestVerifC15Enum(t *testing.T) {
	rep := vfNewReport("C15", "exhaustive: every text over the alphabet {space, VT, FF, LF, ';', '-', '/', '*', quotes ' \" `, '[', ']', '.', '=', '(', ')', '1', 'x', PRAGMA, synchronous, main} of (a) at most N symbols, (b) PRAGMA + at most N symbols, (c) one symbol + PRAGMA + at most N-1 symbols, (d) PRAGMA + one symbol + synchronous + at most N-1 symbols, (e) 'PRAGMA main' + at most N symbols (quick: 2/3/2/2/3, thorough: 4/4/3/3/4), executed on the write connection of one scratch database; non-trivial when the text changed `synchronous`; distinct by the text")
	rep.Exhaustive = true
	defer rep.Write()
	na, nb, nc, nd, ne := 2, 3, 2, 2, 3
	if vfThorough() {
		na, nb, nc, nd, ne = 4, 4, 3, 3, 4
	}
	path := mustTempFile()
	defer os.Remove(path)
	defer os.Remove(path + "-wal")
	defer os.Remove(path + "-shm")
	db, err := Open(path, false, true)
	if err != nil {
		t.Fatalf("open: %v", err)
	}
	defer db.Close()
	if c15ReadInt(db, "PRAGMA synchronous") != "0" {
		t.Fatalf("unexpected initial synchronous setting %s", c15ReadInt(db, "PRAGMA synchronous"))
	}
	var ops, impl []string
	seen := map[string]bool{}
	run := func(sql string) {
		if seen[sql] {
			return
		}
		seen[sql] = true
		refused := IsBreakingPragma(sql)
		ops = append(ops, "guard "+vfHex(sql))
		impl = append(impl, vfBool(refused))
		db.ExecuteStringStmt(sql)
		after := c15ReadInt(db, "PRAGMA synchronous")
		changed := after != "0"
		rep.Case(sql, changed)
		switch {
		case changed && refused:
			rep.Count("enum:took-effect-and-refused")
		case changed:
			rep.Count("enum:took-effect-and-ACCEPTED")
			rep.Fail("enum:accepted-but-takes-effect", fmt.Sprintf("%q is accepted by IsBreakingPragma, yet it set synchronous to %s on the write connection", sql, after),
				map[string]interface{}{"sql": sql, "sql_hex": vfHex(sql), "synchronous_after": after})
		case refused:
			rep.Count("enum:refused-without-effect")
		default:
			rep.Count("enum:accepted-no-effect")
		}
		if changed {
			db.ExecuteStringStmt("PRAGMA synchronous=0")
			if c15ReadInt(db, "PRAGMA synchronous") != "0" {
				t.Fatalf("could not reset synchronous after %q", sql)
			}
		}
	}
	c15Enumerate(na, "", run)
	c15Enumerate(nb, "PRAGMA", run)
	for _, s := range c15Alphabet {
		c15Enumerate(nc, s+"PRAGMA", run)
	}
	// (d) PRAGMA, one symbol, the critical name, then everything up to nd symbols (assignment and call
	// syntax, closing quotes, comments after the name); (e) PRAGMA main + up to ne symbols (schema prefix)
	for _, s := range c15Alphabet {
		c15Enumerate(nd, "PRAGMA"+s+"synchronous", run)
	}
	c15Enumerate(ne, "PRAGMA main", run)
	rep.Note("texts enumerated: %d", len(ops))
	// the model of the guard on every enumerated text (in slices, to keep the pipes small)
	for i := 0; i < len(ops); i += 100000 {
		j := i + 100000
		if j > len(ops) {
			j = len(ops)
		}
		rep.vfCompare("pragma", ops[i:j], impl[i:j], nil)
	}
	rep.Sample(map[string]interface{}{"texts": len(ops), "alphabet": c15Alphabet})
}

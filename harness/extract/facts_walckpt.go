package main

// WalCkpt (C06): the shape of CheckpointManager.Checkpoint's outcome bookkeeping and of
// the incremental branch of Store.fsmSnapshot, read from the current sources.

import (
	"go/ast"
	"go/token"
	"sort"
	"strings"
)

func init() {
	register("WalCkpt", func(x *X) {
		x.Comment("db/checkpoint_manager.go (*CheckpointManager).Checkpoint: per outcome branch (condition, calls on cm.resetWatch, returned error)")
		type br struct {
			cond  string
			calls []string
			ret   string
		}
		var branches []br
		var scannerArgs []string
		scannerOK := false
		saltPos, ckptPos := token.NoPos, token.NoPos
		checkAssign := ""
		if fd := x.Func("db", "CheckpointManager", "Checkpoint"); fd != nil {
			watchCalls := func(b *ast.BlockStmt) []string {
				var out []string
				ast.Inspect(b, func(n ast.Node) bool {
					if c, ok := n.(*ast.CallExpr); ok {
						p := x.Src(c.Fun)
						if strings.HasPrefix(p, "cm.resetWatch.") {
							var args []string
							for _, a := range c.Args {
								args = append(args, x.Src(a))
							}
							out = append(out, strings.TrimPrefix(p, "cm.resetWatch.")+"("+strings.Join(args, ", ")+")")
						}
					}
					return true
				})
				return out
			}
			retErr := func(b *ast.BlockStmt) string {
				for _, st := range b.List {
					if r, ok := st.(*ast.ReturnStmt); ok && len(r.Results) == 3 {
						return x.Src(r.Results[2])
					}
				}
				return "?"
			}
			var visitIf func(s *ast.IfStmt)
			visitIf = func(s *ast.IfStmt) {
				c := x.Src(s.Cond)
				if c == "rc == 0" || strings.HasPrefix(c, "pnCkpt ") {
					branches = append(branches, br{c, watchCalls(s.Body), retErr(s.Body)})
				}
				if e, ok := s.Else.(*ast.IfStmt); ok {
					visitIf(e)
				}
			}
			for _, st := range fd.Body.List {
				if s, ok := st.(*ast.IfStmt); ok {
					visitIf(s)
				}
			}
			for _, c := range x.Calls(fd.Body, "NewCompactingFrameScanner") {
				for _, a := range c.Args {
					scannerArgs = append(scannerArgs, x.Src(a))
				}
				scannerOK = true
			}
			for _, c := range x.Calls(fd.Body, "ReadSaltAt") {
				saltPos = c.Pos()
			}
			for _, c := range x.Calls(fd.Body, "CheckpointWithTimeout") {
				ckptPos = c.Pos() // the last one is the capturing path's
			}
			ast.Inspect(fd.Body, func(n ast.Node) bool {
				if a, ok := n.(*ast.AssignStmt); ok && len(a.Rhs) == 1 {
					if c, ok := a.Rhs[0].(*ast.CallExpr); ok && x.Src(c.Fun) == "cm.resetWatch.Check" {
						checkAssign = x.Src(a)
					}
				}
				return true
			})
		}
		var rows []string
		for _, b := range branches {
			q := make([]string, len(b.calls))
			for i, c := range b.calls {
				q[i] = LeanStr(c)
			}
			rows = append(rows, "("+LeanStr(b.cond)+", ["+strings.Join(q, ", ")+"], "+LeanStr(b.ret)+")")
		}
		x.Raw("def ckptBranches : List (String × List String × String) := [" + strings.Join(rows, ", ") + "]")
		if scannerOK {
			x.DefStrings("scannerArgs", scannerArgs)
		} else {
			x.DefStrings("scannerArgs", nil)
		}
		x.DefString("checkAssign", checkAssign)
		x.DefOptBool("saltReadBeforeCheckpoint", saltPos < ckptPos, saltPos != token.NoPos && ckptPos != token.NoPos)

		x.Comment("db/checkpoint_manager.go Checkpoint: every place the result's WALReset field is set (one literal before the outcome branches = every outcome, busy included, carries it)")
		var resetSites []string
		if fd := x.Func("db", "CheckpointManager", "Checkpoint"); fd != nil {
			firstBranch := token.NoPos
			for _, st := range fd.Body.List {
				if is, ok := st.(*ast.IfStmt); ok && x.Src(is.Cond) == "rc == 0" {
					firstBranch = is.Pos()
				}
			}
			ast.Inspect(fd.Body, func(n ast.Node) bool {
				switch v := n.(type) {
				case *ast.KeyValueExpr:
					if x.Src(v.Key) == "WALReset" {
						where := "after-branches-start"
						if firstBranch != token.NoPos && v.Pos() < firstBranch {
							where = "before-branches"
						}
						resetSites = append(resetSites, "literal:"+x.Src(v.Value)+":"+where)
					}
				case *ast.AssignStmt:
					for _, l := range v.Lhs {
						if strings.HasSuffix(x.Src(l), ".WALReset") {
							resetSites = append(resetSites, "assign:"+x.Src(v))
						}
					}
				}
				return true
			})
		}
		x.DefStrings("walResetSites", resetSites)

		x.Comment("db/db.go OpenWithDriver: pool settings that reach the READ-WRITE pool (direct calls, and calls in a loop over a list naming rwDB), sorted; and where autocheckpoint is switched off")
		var rwPool, autock []string
		if fd := x.Func("db", "", "OpenWithDriver"); fd != nil {
			poolCall := func(c *ast.CallExpr, recv string) (string, bool) {
				se, ok := c.Fun.(*ast.SelectorExpr)
				if !ok || x.Src(se.X) != recv || !strings.HasPrefix(se.Sel.Name, "Set") {
					return "", false
				}
				var as []string
				for _, a := range c.Args {
					as = append(as, x.Src(a))
				}
				return se.Sel.Name + "(" + strings.Join(as, ", ") + ")", true
			}
			ast.Inspect(fd.Body, func(n ast.Node) bool {
				switch v := n.(type) {
				case *ast.RangeStmt:
					if cl, ok := v.X.(*ast.CompositeLit); ok && v.Value != nil {
						hasRW := false
						for _, e := range cl.Elts {
							if x.Src(e) == "rwDB" {
								hasRW = true
							}
						}
						if hasRW {
							lv := x.Src(v.Value)
							ast.Inspect(v.Body, func(m ast.Node) bool {
								if c, ok := m.(*ast.CallExpr); ok {
									if sdesc, ok := poolCall(c, lv); ok {
										rwPool = append(rwPool, sdesc)
									}
								}
								return true
							})
						}
					}
				case *ast.CallExpr:
					if sdesc, ok := poolCall(v, "rwDB"); ok {
						rwPool = append(rwPool, sdesc)
					}
					if len(v.Args) >= 1 && strings.Contains(x.Src(v.Args[0]), "wal_autocheckpoint") {
						autock = append(autock, x.Src(v.Fun), strings.Trim(x.Src(v.Args[0]), "\""))
					}
				}
				return true
			})
			sort.Strings(rwPool)
		}
		x.DefStrings("rwPoolSettings", rwPool)
		x.DefStrings("autocheckpointOff", autock)

		x.Comment("db/wal_reset_watch.go (*WALResetWatch).Check: the three returns, in order")
		var checkRets []string
		if fd := x.Func("db", "WALResetWatch", "Check"); fd != nil {
			ast.Inspect(fd.Body, func(n ast.Node) bool {
				switch s := n.(type) {
				case *ast.IfStmt:
					checkRets = append(checkRets, "if "+x.Src(s.Cond))
				case *ast.ReturnStmt:
					var rs []string
					for _, r := range s.Results {
						rs = append(rs, x.Src(r))
					}
					checkRets = append(checkRets, "return "+strings.Join(rs, ", "))
				case *ast.ExprStmt:
					checkRets = append(checkRets, x.Src(s.X))
				}
				return true
			})
		}
		x.DefStrings("watchCheck", checkRets)

		x.Comment("store/store.go (*Store).fsmSnapshot, incremental branch: staging-related steps in source order")
		var steps []string
		errBranchCloses, errBranchReturns := false, false
		closeFound, closeSetsFull := false, false
		found := false
		if fd := x.Func("store", "Store", "fsmSnapshot"); fd != nil {
			ast.Inspect(fd.Body, func(n ast.Node) bool {
				ifs, ok := n.(*ast.IfStmt)
				if !ok || x.Src(ifs.Cond) != "dueNext.IsFull()" {
					return true
				}
				els, ok := ifs.Else.(*ast.BlockStmt)
				if !ok {
					return false
				}
				found = true
				for _, st := range els.List {
					switch s := st.(type) {
					case *ast.IfStmt:
						if s.Init == nil {
							if u, ok := s.Cond.(*ast.UnaryExpr); ok && u.Op == token.NOT {
								if c, ok := u.X.(*ast.CallExpr); ok {
									steps = append(steps, "if-not "+x.Src(c.Fun))
								}
							}
						}
					}
					switch s := st.(type) {
					case *ast.DeferStmt:
						steps = append(steps, "defer "+x.Src(s.Call.Fun))
					case *ast.AssignStmt:
						if len(s.Rhs) == 1 {
							if c, ok := s.Rhs[0].(*ast.CallExpr); ok {
								steps = append(steps, x.Src(c.Fun))
							}
						}
					case *ast.IfStmt:
						if s.Init != nil {
							if a, ok := s.Init.(*ast.AssignStmt); ok && len(a.Rhs) == 1 {
								if c, ok := a.Rhs[0].(*ast.CallExpr); ok {
									name := x.Src(c.Fun)
									steps = append(steps, "if-err "+name)
									if name == "walWriter.Close" {
										closeFound = true
										for _, c2 := range x.Calls(s.Body, "SetDueNext") {
											if len(c2.Args) == 1 && x.Src(c2.Args[0]) == "snapshot.Full" {
												closeSetsFull = true
											}
										}
									}
									if name == "s.checkpointer.Checkpoint" {
										if len(c.Args) > 0 {
											steps = append(steps, "arg "+x.Src(c.Args[0]))
										}
										for _, c2 := range x.Calls(s.Body, "Close") {
											if x.Src(c2.Fun) == "walWriter.Close" {
												errBranchCloses = true
											}
										}
										if len(s.Body.List) > 0 {
											if r, ok := s.Body.List[len(s.Body.List)-1].(*ast.ReturnStmt); ok && len(r.Results) == 2 && x.Src(r.Results[1]) == "err" {
												errBranchReturns = true
											}
										}
									}
								}
							}
						}
					}
				}
				return false
			})
		}
		x.DefStrings("incSteps", steps)
		x.DefOptBool("incErrBranchClosesSegment", errBranchCloses, found)
		x.DefOptBool("incErrBranchReturnsErr", errBranchReturns, found)
		x.DefOptBool("incCloseErrRequestsFull", closeSetsFull, closeFound)
	})
}

#!/usr/bin/env python3
"""print the prompt for a seeding sub-agent for property <ID> (property text only; nothing from /verif)"""
import json, sys
pid = sys.argv[1]
import os
prev = " || SECOND ATTEMPT: ".join(json.load(open(f"/verif/seeded/{n}/meta.json")).get("summary","")[:700] for n in (pid, pid+"b") if os.path.exists(f"/verif/seeded/{n}/meta.json"))
for l in open('/verif/properties.jsonl'):
    p = json.loads(l)
    if p['id'] == pid:
        break
wt = f"/tmp/seed3-{pid}"
print(f"""You are helping to evaluate a verification effort by playing the adversary. The codebase is rqlite (a distributed relational database that replicates SQLite via hashicorp/raft), Go. You have your own scratch git worktree of it at {wt} (work ONLY there; never touch /repo or /verif, and do not read anything under /verif or /verif-wt).

The property under attack ({pid}: {p['title']}):
  STATEMENT: {p['statement']}
  QUANTIFIED OVER: {p['quantifier']['text']}
  Relevant files: {', '.join(p['anchors']['files'])}

Two earlier adversaries already tried these changes (do NOT repeat either or a close variant; pick a DIFFERENT mechanism, a different function and a different clause of the property):
  PREVIOUS: {prev}

Task: design ONE realistic change to rqlite (the kind of regression a plausible refactor, optimisation or "cleanup" could introduce) that BREAKS this property, while
  (a) the tree still compiles (`go1.26 build ./...`), and
  (b) the EXISTING test suite still passes — at minimum run the full tests of every package you touched and of its direct users (e.g. `go1.26 test -count=1 ./queue ./http`), they must all pass unedited; you may not edit or delete existing tests;
  (c) the breakage needs something SPECIFIC to manifest — a particular interleaving, a crash or fault at a particular point, a multi-step sequence of operations, an unusual input, or two cooperating sites that each look fine alone — NOT something ordinary use would expose at once, and not a change that makes the feature obviously dead;
  (d) you provide a DEMONSTRATION: a new Go test file (or small program) that FAILS with your change and PASSES without it (verify both directions yourself by saving your diff and reversing it: `git diff > /tmp/seed3-{pid}.diff; git apply -R /tmp/seed3-{pid}.diff; ...; git apply /tmp/seed3-{pid}.diff`. NEVER use `git stash`: the stash is shared with other worktrees of this repository that other people are using).

Environment (no network): in every shell call first run `export GOFLAGS=-mod=mod GOPROXY=off GOSUMDB=off GOTOOLCHAIN=local` and use `go1.26` (not `go`). The first build of packages using SQLite (cgo) takes ~2 minutes; later builds are seconds. Packages `store` and `system_test` have slow test suites (several minutes) — that is expected; use -timeout 25m.

Deliverables, written to the directory /tmp/seed3-out/{pid}/ (create it):
  - patch.diff  : `git -C {wt} diff` of your change to non-test source files ONLY (the demonstration is NOT part of the patch);
  - demo/       : the demonstration test file(s), with a note of where each must be placed in the tree (e.g. demo/zz_demo_test.go -> queue/zz_demo_test.go);
  - meta.json   : {{"property": "{pid}", "summary": "<what the change does>", "needs_to_manifest": "<the specific interleaving/crash point/sequence/input needed>", "files_changed": [...], "demo_cmd": "<exact command that runs the demonstration from the tree root>", "existing_tests_run": "<the exact go test commands you ran and that passed with the change>"}}.
Leave the worktree with your change applied and the demo file in place. Keep the change small (ideally < 30 changed lines). Your final message: a short summary of the change, why existing tests miss it, and the output of the demo with and without the change.""")

/-
Helper lemmas for C09 (catalog well-formedness, full-needed) over RqModel/Model/SnapCat.lean.
-/
import RqModel.Model.SnapCat
import RqModel.Lemmas.SnapFSFields
set_option linter.unusedSimpArgs false
set_option linter.unusedVariables false
namespace RqModel.SnapCat
open RqModel.SnapFS
variable {D : Type}

theorem getSink_putSink (s : CS D) (h h' : Nat) (k : Sink D) :
    getSink (putSink s h k) h' = if h' = h then some k else getSink s h' := by
  unfold getSink putSink
  by_cases e : h' = h
  · subst e; simp
  · have e' : (h == h') = false := by simpa using fun x => e x.symm
    simp only [List.find?_cons, e', e, if_false]
    congr 1
    rw [List.find?_filter]
    congr 1
    funext x
    by_cases hx : x.1 = h'
    · have : x.1 ≠ h := hx ▸ e
      simp [hx, this, e]
    · simp [hx]

theorem putSink_fs (s : CS D) (h : Nat) (k : Sink D) : (putSink s h k).fs = s.fs := rfl

/-- FULL_NEEDED goes from set to clear only through a Close that returned success -/
theorem fullNeeded_cleared_only_by_close (A : DbAlg D) (s : CS D) (op : COp D)
    (h1 : s.fs.fullNeeded = true) (h2 : (stepOp A s op).1.fs.fullNeeded = false) :
    ∃ h, op = .close h ∧ (stepOp A s op).2 = "ok" := by
  cases op with
  | create h n i t => simp [stepOp, create, putSink, FS.set, h1] at h2
  | wfull h d ws v =>
    simp only [stepOp, writeFull] at h2
    split at h2
    · simp [h1] at h2
    · split at h2 <;> simp [putSink, h1] at h2
  | winc h ws =>
    simp only [stepOp, writeInc] at h2
    split at h2
    · simp [h1] at h2
    · split at h2
      · split at h2 <;> simp [putSink, h1] at h2
      · simp [h1] at h2
  | close h =>
    refine ⟨h, rfl, ?_⟩
    simp only [stepOp, close] at h2 ⊢
    cases hk : getSink s h with
    | none => simp [hk, h1] at h2
    | some k =>
      simp only [hk] at h2 ⊢
      cases ho : k.opened with
      | false => simp [ho, h1] at h2
      | true =>
        simp only [ho, Bool.not_true, Bool.false_eq_true, if_false] at h2 ⊢
        cases hh : k.hdr with
        | none => simp [hh, putSink, FS.set, h1] at h2
        | rejected => simp [hh, putSink, FS.set, h1] at h2
        | full d ws v => cases v <;> simp [hh, putSink, FS.set, h1, clearedBy] at h2 ⊢
        | inc ws =>
          have hfd : fullDue s.fs = true := by simp [fullDue, h1]
          simp [hh, putSink, FS.set, h1, hfd] at h2 ⊢
  | closeRenameFails h =>
    simp only [stepOp, closeRenameFails] at h2
    cases hk : getSink s h with
    | none => simp [hk, h1] at h2
    | some k =>
      simp only [hk] at h2
      cases ho : k.opened with
      | false => simp [ho, h1] at h2
      | true =>
        simp only [ho, Bool.not_true, Bool.false_eq_true, if_false] at h2
        cases hh : k.hdr with
        | none => simp [hh, putSink, FS.set, h1] at h2
        | rejected => simp [hh, putSink, FS.set, h1] at h2
        | full d ws v => cases v <;> simp [hh, putSink, FS.set, h1] at h2
        | inc ws =>
          have hfd : fullDue s.fs = true := by simp [fullDue, h1]
          simp [hh, putSink, FS.set, h1, hfd] at h2
  | cancel h =>
    simp only [stepOp, cancel] at h2
    split at h2
    · simp [h1] at h2
    · split at h2
      · simp [h1] at h2
      · split at h2 <;> simp [putSink, FS.set, h1] at h2
  | setFull => simp [stepOp, setFull] at h2
  | reopen =>
    simp only [stepOp, reopen] at h2
    split at h2
    · rename_i fs hc
      have := check_fullNeeded A _ _ hc
      simp [this, h1] at h2
    · simp [h1] at h2
  | crashClose h c =>
    simp only [stepOp, crashClose] at h2
    split at h2
    · simp [h1] at h2
    · split at h2 <;> simp [FS.set, h1] at h2
  | reap nn =>
    simp only [stepOp, reapOp] at h2
    split at h2
    · rename_i fs hc
      have := reap_fullNeeded A _ _ _ _ hc
      simp [this, h1] at h2
    · simp [h1] at h2

/-- Close never installs an incremental snapshot while a full one is due (flag or empty store) -/
theorem close_inc_needs_no_full (s : CS D) (h : Nat) (k : Sink D) (wals : List Nat)
    (hk : getSink s h = some k) (hi : k.hdr = .inc wals) (hok : (close 2 s h).2 = "ok") (ho : k.opened = true) :
    fullDue s.fs = false := by
  simp only [close, hk, ho, Bool.not_true, Bool.false_eq_true, if_false, hi] at hok
  cases hf : fullDue s.fs with
  | false => rfl
  | true => simp [hf] at hok

/-- … and it leaves the requirement alone -/
theorem close_inc_keeps_requirement (s : CS D) (h : Nat) (k : Sink D) (wals : List Nat)
    (hk : getSink s h = some k) (hi : k.hdr = .inc wals) (ho : k.opened = true) :
    (close 2 s h).1.fs.fullNeeded = s.fs.fullNeeded := by
  simp only [close, hk, ho, Bool.not_true, Bool.false_eq_true, if_false, hi]
  split <;> simp [putSink, FS.set]

/-- a requirement raised after the sink of a full snapshot was created survives its Close -/
theorem close_full_keeps_later_requirement (s : CS D) (h : Nat) (k : Sink D)
    (hk : getSink s h = some k) (ho : k.opened = true) (hf : s.fs.fullNeeded = true)
    (hlater : k.tok ≠ some s.fnGen) : (close 2 s h).1.fs.fullNeeded = true := by
  simp only [close, hk, ho, Bool.not_true, Bool.false_eq_true, if_false]
  cases hh : k.hdr with
  | none => simp [putSink, FS.set, hf]
  | rejected => simp [putSink, FS.set, hf]
  | full d ws v => cases v <;> simp [putSink, FS.set, hf, clearedBy, hlater]
  | inc ws =>
    have hfd : fullDue s.fs = true := by simp [fullDue, hf]
    simp [putSink, FS.set, hf, hfd]

/-! ### catalog invariant -/


/-- a fully written snapshot directory -/
structure Complete (n : Nat) (d : Dir D) : Prop where
  mt : ∃ m, d.mt = some m ∧ m.id = n
  data : (d.db.isSome ∧ d.crc = d.db) ∨ (d.db = none ∧ d.wals ≠ [])

def Live (fs : FS D) (n : Nat) (d : Dir D) : Prop := fs.dir n = some d ∧ d.tmp = false

def sinkKey (k : Sink D) : Nat × Nat × Nat := (k.mt.term, k.mt.index, k.name)

structure CatInv (s : CS D) : Prop where
  /-- every listed directory is complete -/
  complete : ∀ n d, Live s.fs n d → Complete n d
  /-- every listed incremental has a listed full snapshot at or before it -/
  based : ∀ n d, Live s.fs n d → d.db = none →
    ∃ n' d', Live s.fs n' d' ∧ d'.db.isSome ∧ keyLe (keyOf n' d') (keyOf n d)
  noPlan : s.fs.plan = none
  sinkTmp : ∀ h k, getSink s h = some k → k.opened = true →
    k.mt.id = k.name ∧ ∀ d, s.fs.dir k.name = some d → d.tmp = true
  sinkMax : ∀ h k, getSink s h = some k → k.opened = true → ∀ n d, Live s.fs n d → keyLe (keyOf n d) (sinkKey k)
  incOK : ∀ h k wals, getSink s h = some k → k.opened = true → k.hdr = .inc wals →
    wals ≠ [] ∧ ∃ n' d', Live s.fs n' d' ∧ d'.db.isSome
  single : ∀ h h' k k', getSink s h = some k → getSink s h' = some k' → k.opened = true → k'.opened = true → h = h'

/-- side conditions on an operation (what raft's snapshotting guarantees) -/
def OpOK (s : CS D) : COp D → Prop
  | .create h name index term =>
    s.fs.dir name = none ∧ (∀ h' k, getSink s h' = some k → k.opened = false) ∧
    ∀ n d, Live s.fs n d → keyLe (keyOf n d) (term, index, name)
  | .winc _ wals => wals ≠ []
  | .crashClose h _ => ∀ k, getSink s h = some k →
      k.opened = true ∧ ∀ wals, k.hdr = .inc wals → s.fs.fullNeeded = false
  | .reap _ => False
  | _ => True

theorem live_set_other {fs : FS D} {n n' : Nat} {v : Option (Dir D)} {d : Dir D} (hne : n' ≠ n) :
    Live (fs.set n v) n' d ↔ Live fs n' d := by
  simp [Live, FS.set, hne]

/-- replacing a temporary (or absent) directory by a temporary one or nothing keeps the listed set -/
theorem live_set_tmp {fs : FS D} {n : Nat} {v : Option (Dir D)}
    (hold : ∀ d, fs.dir n = some d → d.tmp = true) (hnew : ∀ d, v = some d → d.tmp = true) (n' : Nat) (d : Dir D) :
    Live (fs.set n v) n' d ↔ Live fs n' d := by
  by_cases hne : n' = n
  · subst hne
    constructor
    · intro ⟨h1, h2⟩
      simp only [FS.set, if_true] at h1
      have := hnew d h1; rw [h2] at this; cases this
    · intro ⟨h1, h2⟩
      have := hold d h1; rw [h2] at this; cases this
  · exact live_set_other hne

theorem keyLe_refl (a : Nat × Nat × Nat) : keyLe a a := by
  unfold keyLe; omega

/-- a state change that keeps the listed set, the plan file and the sinks' view keeps the invariant -/
theorem CatInv.of_same_live {s t : CS D} (hs : CatInv s)
    (hl : ∀ n d, Live t.fs n d ↔ Live s.fs n d) (hp : t.fs.plan = none)
    (hsink : ∀ h k, getSink t h = some k → k.opened = true →
      getSink s h = some k ∧ ∀ d, t.fs.dir k.name = some d → d.tmp = true) : CatInv t where
  complete n d h := hs.complete n d ((hl n d).1 h)
  based n d h hd := by
    obtain ⟨n', d', h1, h2, h3⟩ := hs.based n d ((hl n d).1 h) hd
    exact ⟨n', d', (hl n' d').2 h1, h2, h3⟩
  noPlan := hp
  sinkTmp h k hk ho := ⟨(hs.sinkTmp h k (hsink h k hk ho).1 ho).1, (hsink h k hk ho).2⟩
  sinkMax h k hk ho n d hl' := hs.sinkMax h k (hsink h k hk ho).1 ho n d ((hl n d).1 hl')
  incOK h k wals hk ho hi := by
    obtain ⟨h1, n', d', h2, h3⟩ := hs.incOK h k wals (hsink h k hk ho).1 ho hi
    exact ⟨h1, n', d', (hl n' d').2 h2, h3⟩
  single h h' k k' hk hk' ho ho' := hs.single h h' k k' (hsink h k hk ho).1 (hsink h' k' hk' ho').1 ho ho'



/-- closing/cancelling the sink `h` (marking it closed) and replacing its temporary directory by `v`
(temporary or nothing) keeps the invariant -/
theorem CatInv.drop_sink {s : CS D} (hs : CatInv s) {h : Nat} {k : Sink D} (hk : getSink s h = some k)
    (ho : k.opened = true) (v : Option (Dir D)) (hv : ∀ d, v = some d → d.tmp = true)
    (kc : Sink D) (hkc : kc.opened = false) :
    CatInv { putSink s h kc with fs := s.fs.set k.name v } := by
  have hold := (hs.sinkTmp h k hk ho).2
  apply hs.of_same_live
  · intro n d; exact live_set_tmp hold hv n d
  · exact hs.noPlan
  · intro h' k' hk' ho'
    simp only [] at hk'
    have : getSink (putSink s h kc) h' = some k' := hk'
    rw [getSink_putSink] at this
    split at this
    · cases this; rw [hkc] at ho'; cases ho'
    · rename_i hne
      have := hs.single h h' k k' hk this ho ho'
      exact absurd this.symm hne

/-- … and so does leaving the directory as it is -/
theorem CatInv.close_sink {s : CS D} (hs : CatInv s) {h : Nat} {k : Sink D} (hk : getSink s h = some k)
    (ho : k.opened = true) (kc : Sink D) (hkc : kc.opened = false) : CatInv (putSink s h kc) := by
  apply hs.of_same_live
  · intro n d; exact Iff.rfl
  · exact hs.noPlan
  · intro h' k' hk' ho'
    rw [getSink_putSink] at hk'
    split at hk'
    · cases hk'; rw [hkc] at ho'; cases ho'
    · rename_i hne
      have := hs.single h h' k k' hk hk' ho ho'
      exact absurd this.symm hne

/-- changing only the header of the open sink `h` -/
theorem CatInv.set_hdr {s : CS D} (hs : CatInv s) {h : Nat} {k : Sink D} (hk : getSink s h = some k)
    (hdr : Hdr D) (hinc : ∀ wals, hdr = .inc wals → k.opened = true → wals ≠ [] ∧ ∃ n' d', Live s.fs n' d' ∧ d'.db.isSome) :
    CatInv (putSink s h { k with hdr := hdr }) where
  complete := hs.complete
  based := hs.based
  noPlan := hs.noPlan
  sinkTmp h' k' hk' ho' := by
    rw [getSink_putSink] at hk'
    split at hk'
    · cases hk'; rename_i e; subst e; exact hs.sinkTmp _ k hk ho'
    · exact hs.sinkTmp h' k' hk' ho'
  sinkMax h' k' hk' ho' := by
    rw [getSink_putSink] at hk'
    split at hk'
    · cases hk'; rename_i e; subst e; exact hs.sinkMax _ k hk ho'
    · exact hs.sinkMax h' k' hk' ho'
  incOK h' k' wals hk' ho' hi := by
    rw [getSink_putSink] at hk'
    split at hk'
    · cases hk'; exact hinc wals hi ho'
    · exact hs.incOK h' k' wals hk' ho' hi
  single h1 h2 k1 k2 hk1 hk2 ho1 ho2 := by
    rw [getSink_putSink] at hk1 hk2
    split at hk1 <;> split at hk2
    · rename_i e1 e2; rw [e1, e2]
    · rename_i e1 e2; cases hk1; subst e1; exact hs.single _ _ k k2 hk hk2 ho1 ho2
    · rename_i e1 e2; cases hk2; subst e2; exact hs.single _ _ k1 k hk1 hk ho1 ho2
    · exact hs.single _ _ k1 k2 hk1 hk2 ho1 ho2



theorem finalDir_facts {s : CS D} (hs : CatInv s) {h : Nat} {k : Sink D} (hk : getSink s h = some k)
    (ho : k.opened = true) {fd : Dir D} (hf : finalDir k = some fd) :
    fd.tmp = false ∧ Complete k.name fd ∧ keyOf k.name fd = sinkKey k ∧
    (fd.db = none → ∃ n' d', Live s.fs n' d' ∧ d'.db.isSome ∧ keyLe (keyOf n' d') (sinkKey k)) := by
  have hid := (hs.sinkTmp h k hk ho).1
  unfold finalDir at hf
  split at hf
  · cases hf
    exact ⟨rfl, ⟨⟨k.mt, rfl, hid⟩, Or.inl ⟨rfl, rfl⟩⟩, rfl, fun h => by cases h⟩
  · rename_i wals hh
    cases hf
    obtain ⟨hne, n', d', hl, hd⟩ := hs.incOK h k wals hk ho hh
    exact ⟨rfl, ⟨⟨k.mt, rfl, hid⟩, Or.inr ⟨rfl, hne⟩⟩, rfl, fun _ => ⟨n', d', hl, hd, hs.sinkMax h k hk ho n' d' hl⟩⟩
  · cases hf

/-- installing the final directory of the (only) open sink -/
theorem CatInv.install {s : CS D} (hs : CatInv s) {h : Nat} {k : Sink D} (hk : getSink s h = some k)
    (ho : k.opened = true) {fd : Dir D} (hf : finalDir k = some fd) (b : Bool) (sinks : List (Nat × Sink D)) (g : Nat)
    (hsinks : ∀ h' k', getSink ({ fs := s.fs, sinks := sinks } : CS D) h' = some k' → k'.opened = true → False) :
    CatInv { fs := { s.fs.set k.name (some fd) with fullNeeded := b }, sinks := sinks, fnGen := g } := by
  obtain ⟨ft, fc, fk, fb⟩ := finalDir_facts hs hk ho hf
  have hold := (hs.sinkTmp h k hk ho).2
  have hlive : ∀ n d, Live ({ s.fs.set k.name (some fd) with fullNeeded := b } : FS D) n d ↔
      (n = k.name ∧ d = fd) ∨ Live s.fs n d := by
    intro n d
    by_cases hn : n = k.name
    · subst hn
      simp only [Live, FS.set, if_true]
      constructor
      · rintro ⟨h1, _⟩; cases h1; exact Or.inl ⟨trivial, rfl⟩
      · rintro (⟨_, rfl⟩ | ⟨h1, h2⟩)
        · exact ⟨rfl, ft⟩
        · have := hold d h1; rw [h2] at this; cases this
    · simp [Live, FS.set, hn]
  have hsub : ∀ n d, Live s.fs n d → Live ({ s.fs.set k.name (some fd) with fullNeeded := b } : FS D) n d :=
    fun n d hl => (hlive n d).2 (Or.inr hl)
  refine ⟨?_, ?_, hs.noPlan, ?_, ?_, ?_, ?_⟩
  · intro n d hl
    rcases (hlive n d).1 hl with ⟨rfl, rfl⟩ | hl'
    · exact fc
    · exact hs.complete n d hl'
  · intro n d hl hd
    rcases (hlive n d).1 hl with ⟨rfl, rfl⟩ | hl'
    · obtain ⟨n', d', h1, h2, h3⟩ := fb hd
      exact ⟨n', d', hsub _ _ h1, h2, fk ▸ h3⟩
    · obtain ⟨n', d', h1, h2, h3⟩ := hs.based n d hl' hd
      exact ⟨n', d', hsub _ _ h1, h2, h3⟩
  · intro h' k' hk' ho'; exact (hsinks h' k' hk' ho').elim
  · intro h' k' hk' ho'; exact (hsinks h' k' hk' ho').elim
  · intro h' k' w hk' ho'; exact (hsinks h' k' hk' ho').elim
  · intro h1 h2 k1 k2 hk1 _ ho1; exact (hsinks h1 k1 hk1 ho1).elim

theorem no_open_after_close {s : CS D} (hs : CatInv s) {h : Nat} {k : Sink D} (hk : getSink s h = some k)
    (ho : k.opened = true) (kc : Sink D) (hkc : kc.opened = false) :
    ∀ h' k', getSink ({ fs := s.fs, sinks := (putSink s h kc).sinks } : CS D) h' = some k' →
      k'.opened = true → False := by
  intro h' k' hk' ho'
  have : getSink (putSink s h kc) h' = some k' := hk'
  rw [getSink_putSink] at this
  split at this
  · cases this; rw [hkc] at ho'; cases ho'
  · rename_i hne
    exact hne (hs.single h h' k k' hk this ho ho').symm

theorem no_open_nil (fs : FS D) : ∀ h' k', getSink ({ fs := fs, sinks := [] } : CS D) h' = some k' → k'.opened = true → False := by
  intro h' k' hk'; simp [getSink] at hk'

/-- with no sink left, only the listed set and the plan file matter -/
theorem CatInv.no_sinks {s : CS D} (hs : CatInv s) {fs : FS D}
    (hl : ∀ n d, Live fs n d ↔ Live s.fs n d) (hp : fs.plan = none) (g : Nat) :
    CatInv { fs := fs, sinks := [], fnGen := g } := by
  apply hs.of_same_live hl hp
  intro h k hk; simp [getSink] at hk



theorem live_of_count {fs : FS D} (h : snapshotCount fs ≠ 0) : ∃ n d, Live fs n d := by
  unfold snapshotCount at h
  cases hl : liveDirs fs with
  | nil => rw [hl] at h; exact absurd rfl h
  | cons p l =>
    have hp : p ∈ liveDirs fs := by rw [hl]; exact List.mem_cons_self
    unfold liveDirs at hp
    obtain ⟨n, _, hn⟩ := List.mem_filterMap.1 hp
    cases hd : fs.dir n with
    | none => simp [hd] at hn
    | some d =>
      simp only [hd] at hn
      split at hn
      · cases hn
      · rename_i ht
        exact ⟨n, d, hd, by simpa using ht⟩

theorem live_rmTmpDirs (fs : FS D) (n : Nat) (d : Dir D) : Live (rmTmpDirs fs) n d ↔ Live fs n d := by
  simp only [Live, rmTmpDirs]
  cases h : fs.dir n with
  | none => simp
  | some d' =>
    by_cases ht : d'.tmp = true
    · simp only [ht, if_true]
      constructor
      · rintro ⟨h1, _⟩; cases h1
      · rintro ⟨h1, h2⟩; cases h1; rw [ht] at h2; cases h2
    · simp [ht]

theorem full_of_live {s : CS D} (hs : CatInv s) {n d} (hl : Live s.fs n d) : ∃ n' d', Live s.fs n' d' ∧ d'.db.isSome := by
  cases hd : d.db with
  | some x => exact ⟨n, d, hl, by simp [hd]⟩
  | none =>
    obtain ⟨n', d', h1, h2, _⟩ := hs.based n d hl hd
    exact ⟨n', d', h1, h2⟩

/-- every API operation (under the side conditions) keeps the catalog invariant -/
theorem step_inv (A : DbAlg D) {s : CS D} (hs : CatInv s) (op : COp D) (hok : OpOK s op) :
    CatInv (stepOp A s op).1 := by
  cases op with
  | create h name index term =>
    obtain ⟨hfresh, hclosed, hkeys⟩ := hok
    simp only [stepOp, create]
    have hl : ∀ n d, Live ({ s.fs.set name (some { tmp := true }) with names := addName s.fs.names name } : FS D) n d
        ↔ Live s.fs n d := by
      intro n d
      exact live_set_tmp (fun d hd => by rw [hfresh] at hd; cases hd) (fun d hd => by cases hd; rfl) n d
    refine ⟨fun n d h => hs.complete n d ((hl n d).1 h), ?_, hs.noPlan, ?_, ?_, ?_, ?_⟩
    · intro n d h hd
      obtain ⟨n', d', h1, h2, h3⟩ := hs.based n d ((hl n d).1 h) hd
      exact ⟨n', d', (hl n' d').2 h1, h2, h3⟩
    · intro h' k' hk' ho'
      rw [getSink_putSink] at hk'
      split at hk'
      · cases hk'; exact ⟨rfl, fun d hd => by simp [putSink, FS.set] at hd; rw [← hd]⟩
      · exact absurd (hclosed h' k' hk') (by simp [ho'])
    · intro h' k' hk' ho' n d hl'
      rw [getSink_putSink] at hk'
      split at hk'
      · cases hk'; exact hkeys n d ((hl n d).1 hl')
      · exact absurd (hclosed h' k' hk') (by simp [ho'])
    · intro h' k' w hk' ho' hi
      rw [getSink_putSink] at hk'
      split at hk'
      · cases hk'; cases hi
      · exact absurd (hclosed h' k' hk') (by simp [ho'])
    · intro h1 h2 k1 k2 hk1 hk2 ho1 ho2
      rw [getSink_putSink] at hk1 hk2
      split at hk1 <;> split at hk2
      · rename_i e1 e2; rw [e1, e2]
      · exact absurd (hclosed h2 k2 hk2) (by simp [ho2])
      · exact absurd (hclosed h1 k1 hk1) (by simp [ho1])
      · exact absurd (hclosed h1 k1 hk1) (by simp [ho1])
  | wfull h d ws v =>
    simp only [stepOp, writeFull]
    cases hk : getSink s h with
    | none => exact hs
    | some k =>
      simp only
      cases hh : k.hdr with
      | none => exact hs.set_hdr hk _ (fun w e => by cases e)
      | rejected => exact hs
      | full _ _ _ => exact hs
      | inc _ => exact hs
  | winc h ws =>
    simp only [stepOp, writeInc]
    cases hk : getSink s h with
    | none => exact hs
    | some k =>
      simp only
      cases hh : k.hdr with
      | none =>
        simp only
        cases hf : fullDue s.fs with
        | true => exact hs.set_hdr hk _ (fun w e => by cases e)
        | false =>
          simp only [Bool.false_eq_true, if_false]
          apply hs.set_hdr hk
          intro w e _
          cases e
          refine ⟨hok, ?_⟩
          have : snapshotCount s.fs ≠ 0 := by
            unfold fullDue at hf
            simp only [Bool.or_eq_false_iff, beq_eq_false_iff_ne] at hf
            exact hf.2
          obtain ⟨n, d, hl⟩ := live_of_count this
          exact full_of_live hs hl
      | rejected => exact hs
      | full _ _ _ => exact hs
      | inc _ => exact hs
  | close h =>
    simp only [stepOp, close]
    cases hk : getSink s h with
    | none => exact hs
    | some k =>
      simp only
      cases ho : k.opened with
      | false => exact hs
      | true =>
        simp only [Bool.not_true, Bool.false_eq_true, if_false]
        cases hh : k.hdr with
        | none => exact hs.drop_sink hk ho none (fun d e => by cases e) _ rfl
        | rejected => exact hs.drop_sink hk ho none (fun d e => by cases e) _ rfl
        | full d ws v =>
          cases v with
          | short => exact hs.close_sink hk ho _ rfl
          | badcrc => exact hs.close_sink hk ho _ rfl
          | ok =>
            have hf : finalDir k = some { tmp := false, mt := some k.mt, db := some d, crc := some d, wals := ws } := by
              simp [finalDir, hh]
            simp only [hf]
            exact hs.install hk ho hf _ _ _ (no_open_after_close hs hk ho _ rfl)
        | inc ws =>
          simp only
          split
          · exact hs.drop_sink hk ho none (fun d e => by cases e) _ rfl
          · have hf : finalDir k = some { tmp := false, mt := some k.mt, wals := ws } := by simp [finalDir, hh]
            simp only [hf]
            exact hs.install hk ho hf _ _ _ (no_open_after_close hs hk ho _ rfl)
  | closeRenameFails h =>
    simp only [stepOp, closeRenameFails]
    cases hk : getSink s h with
    | none => exact hs
    | some k =>
      simp only
      cases ho : k.opened with
      | false => exact hs
      | true =>
        simp only [Bool.not_true, Bool.false_eq_true, if_false]
        cases hh : k.hdr with
        | none => exact hs.drop_sink hk ho none (fun d e => by cases e) _ rfl
        | rejected => exact hs.drop_sink hk ho none (fun d e => by cases e) _ rfl
        | full d ws v => cases v <;> exact hs.close_sink hk ho _ rfl
        | inc ws =>
          simp only
          split
          · exact hs.drop_sink hk ho none (fun d e => by cases e) _ rfl
          · exact hs.close_sink hk ho _ rfl
  | cancel h =>
    simp only [stepOp, cancel]
    cases hk : getSink s h with
    | none => exact hs
    | some k =>
      simp only
      cases ho : k.opened with
      | false => exact hs
      | true =>
        simp only [Bool.not_true, Bool.false_eq_true, if_false]
        cases hh : k.hdr with
        | none => exact hs.drop_sink hk ho none (fun d e => by cases e) _ rfl
        | rejected => exact hs.drop_sink hk ho none (fun d e => by cases e) _ rfl
        | full d ws v =>
          cases v with
          | short => exact hs.close_sink hk ho _ rfl
          | badcrc => exact hs.close_sink hk ho _ rfl
          | ok => exact hs.drop_sink hk ho none (fun d e => by cases e) _ rfl
        | inc ws => exact hs.drop_sink hk ho none (fun d e => by cases e) _ rfl
  | setFull =>
    simp only [stepOp, setFull]
    refine CatInv.of_same_live (t := { s with fs := { s.fs with fullNeeded := true }, fnGen := s.fnGen + 1 }) hs
      (fun n d => Iff.rfl) hs.noPlan ?_
    intro h k hk ho
    exact ⟨hk, (hs.sinkTmp h k hk ho).2⟩
  | reopen =>
    simp only [stepOp, reopen]
    have hc : check A s.fs = .ok (rmTmpDirs { s.fs with planTmp := false }) := by
      simp [check, hs.noPlan]
    simp only [hc]
    exact hs.no_sinks (fs := rmTmpDirs { s.fs with planTmp := false }) (fun n d => live_rmTmpDirs _ n d) hs.noPlan _
  | crashClose h c =>
    simp only [stepOp, crashClose]
    cases hk : getSink s h with
    | none => exact hs.no_sinks (fun n d => Iff.rfl) hs.noPlan _
    | some k =>
      obtain ⟨ho, hinc⟩ := hok k hk
      have hold := (hs.sinkTmp h k hk ho).2
      simp only
      cases hf : finalDir k with
      | none => cases c <;> exact hs.no_sinks (fun n d => Iff.rfl) hs.noPlan _
      | some fd =>
        cases c with
        | renamed => exact hs.install hk ho hf s.fs.fullNeeded [] _ (no_open_nil s.fs)
        | metaWritten =>
          exact hs.no_sinks (fun n d => live_set_tmp hold (fun d e => by cases e; rfl) n d) hs.noPlan _
        | filesInPlace =>
          exact hs.no_sinks (fun n d => live_set_tmp hold (fun d e => by cases e; rfl) n d) hs.noPlan _
        | walDirMoved =>
          exact hs.no_sinks (fun n d => live_set_tmp hold (fun d e => by cases e; rfl) n d) hs.noPlan _
  | reap nn => exact hok.elim



theorem mem_liveDirs {fs : FS D} {p : Nat × Dir D} (h : p ∈ liveDirs fs) : Live fs p.1 p.2 := by
  unfold liveDirs at h
  obtain ⟨n, _, hn⟩ := List.mem_filterMap.1 h
  cases hd : fs.dir n with
  | none => simp [hd] at hn
  | some d =>
    simp only [hd] at hn
    split at hn
    · cases hn
    · rename_i ht
      cases hn
      exact ⟨hd, by simpa using ht⟩

/-- what `List` shows of a listed directory -/
def Listed (fs : FS D) (x : Snap D) : Prop :=
  ∃ d, Live fs x.name d ∧ d.mt = some x.mt ∧ x.mt.id = x.name ∧ x.db = d.db ∧ x.wals = d.wals ∧
    ((x.db.isSome ∧ x.crc = x.db) ∨ (x.db = none ∧ x.wals ≠ []))

theorem loadAll_ok {fs : FS D} (hc : ∀ n d, Live fs n d → Complete n d) :
    ∀ (l : List (Nat × Dir D)), (∀ p ∈ l, Live fs p.1 p.2) →
      ∃ xs, loadAll l = .ok xs ∧ ∀ x ∈ xs, Listed fs x := by
  intro l
  induction l with
  | nil => intro _; exact ⟨[], rfl, fun x hx => by cases hx⟩
  | cons p l ih =>
    intro hl
    obtain ⟨n, d⟩ := p
    have hlive : Live fs n d := hl (n, d) List.mem_cons_self
    obtain ⟨⟨m, hm, hid⟩, hdata⟩ := hc n d hlive
    obtain ⟨xs, hxs, hall⟩ := ih (fun p hp => hl p (List.mem_cons_of_mem _ hp))
    have hload : loadSnap n d = .ok { name := n, mt := m, db := d.db, crc := d.crc, wals := d.wals } := by
      unfold loadSnap
      rcases hdata with ⟨h1, h2⟩ | ⟨h1, h2⟩
      · have h3 : d.crc.isSome := by rw [h2]; exact h1
        cases hdb : d.db with
        | none => simp [hdb] at h1
        | some v =>
          cases hcr : d.crc with
          | none => simp [hcr] at h3
          | some c => simp [hm, hdb, hcr]
      · cases hw : d.wals with
        | nil => exact absurd hw h2
        | cons a b => simp [hm, h1, hw]
    refine ⟨{ name := n, mt := m, db := d.db, crc := d.crc, wals := d.wals } :: xs, by simp [loadAll, hload, hxs], ?_⟩
    intro x hx
    rcases List.mem_cons.1 hx with rfl | hx
    · exact ⟨d, hlive, hm, hid, rfl, rfl, hdata⟩
    · exact hall x hx

/-- under the invariant the catalog scan succeeds and shows only complete snapshots -/
theorem scan_ok {s : CS D} (hs : CatInv s) : ∃ xs, scan s.fs = .ok xs ∧ ∀ x ∈ xs, Listed s.fs x := by
  obtain ⟨xs, h1, h2⟩ := loadAll_ok hs.complete (liveDirs s.fs) (fun p hp => mem_liveDirs hp)
  refine ⟨xs.mergeSort snapLe, by simp [scan, h1], ?_⟩
  intro x hx
  exact h2 x (List.mem_mergeSort.1 hx)

theorem catInv_empty : CatInv ({} : CS D) where
  complete n d h := by cases h.1
  based n d h := by cases h.1
  noPlan := rfl
  sinkTmp h k hk := by simp [getSink] at hk
  sinkMax h k hk := by simp [getSink] at hk
  incOK h k w hk := by simp [getSink] at hk
  single h h' k k' hk := by simp [getSink] at hk

/-- every operation of the sequence meets its side condition in the state it is applied to -/
def OpsOK (A : DbAlg D) : CS D → List (COp D) → Prop
  | _, [] => True
  | s, o :: os => OpOK s o ∧ OpsOK A (stepOp A s o).1 os

theorem runOps_inv (A : DbAlg D) : ∀ (ops : List (COp D)) (s : CS D), CatInv s → OpsOK A s ops →
    CatInv (runOps A s ops) := by
  intro ops
  induction ops with
  | nil => intro s hs _; exact hs
  | cons o os ih =>
    intro s hs hok
    exact ih _ (step_inv A hs o hok.1) hok.2


end RqModel.SnapCat

/-
C25 helper lemmas, part 2: feeding a group / an entry, and the leader loop (`pump`).
-/
import RqModel.Lemmas.Cdc
namespace RqModel.CdcPipe
open RqModel.Fifo

/-! ### writeToBatcher + size trigger -/

/-- Feeding a group `g` (of an applied entry). Either `g` is already covered (`g.idx ≤ f`), or
it is new: its index is above everything that entered the pipeline so far (`f < g.idx`).
`hnew`: no other group has an index in `(f, g.idx]`. -/
theorem feed_good_aux (s : St) (f : Nat) (g : Group) (hbm : Base s (max f g.idx)) (hc : Cov s f)
    (hsnap : s.snap < g.idx) (hlf : g.idx ≤ s.lastFed) (hpos : 0 < g.idx)
    (hnew : ∀ x ∈ groups s, x.idx ≤ max f g.idx → x.idx ≤ f ∨ x = g)
    (hhi : s.fifo.highest ≤ f) :
    Base (feedGroup s g) (max f g.idx) ∧ Cov (feedGroup s g) (max f g.idx) := by
  unfold feedGroup
  by_cases hdrop : g.idx ≠ 0 ∧ g.idx ≤ s.hwm
  · -- filtered: it is at or below the HWM
    rw [if_pos hdrop]
    refine ⟨hbm, ?_⟩
    intro x hx hxf
    rcases hnew x hx hxf with h | h
    · exact hc x hx h
    · subst h
      by_cases hle : x.idx ≤ f
      · exact hc x hx hle
      · left; right
        have := hbm.bnd
        omega
  · rw [if_neg hdrop]
    have hhwm : s.hwm < g.idx := by
      by_cases h0 : g.idx ≤ s.hwm
      · exact absurd ⟨by omega, h0⟩ hdrop
      · omega
    -- the state with g appended to the batcher
    have hbat' : ∀ x ∈ s.batcher ++ [g], s.snap < x.idx ∧ x.idx ≤ s.lastFed ∧ 0 < x.idx := by
      intro x hx
      simp at hx
      rcases hx with hx | hx
      · exact hbm.bat x hx
      · subst hx; exact ⟨hsnap, hlf, hpos⟩
    have hb' : Base { s with batcher := s.batcher ++ [g] } (max f g.idx) :=
      { hbm with bat := hbat' }
    have hc' : Cov { s with batcher := s.batcher ++ [g] } (max f g.idx) := by
      intro x hx hxf
      have hx' : x ∈ groups s := hx
      have old : x.idx ≤ f → DoneG { s with batcher := s.batcher ++ [g] } x ∨
          PendG { s with batcher := s.batcher ++ [g] } x ∨ BatchG { s with batcher := s.batcher ++ [g] } x := by
        intro hle
        rcases hc x hx' hle with h | h | h
        · exact Or.inl h
        · exact Or.inr (Or.inl h)
        · exact Or.inr (Or.inr ⟨by simp [h.1], h.2.1, h.2.2⟩)
      rcases hnew x hx' hxf with h | h
      · exact old h
      · subst h
        by_cases hle : x.idx ≤ f
        · exact old hle
        · right; right
          exact ⟨by simp, by simp only; omega, hhwm⟩
    by_cases hlen : (s.batcher ++ [g]).length = s.batchSz
    · simp only [hlen, if_true]
      have := flush_good { s with batcher := s.batcher ++ [g] } (max f g.idx) hb' hc'
      unfold flushBatcher at this
      cases hbat : s.batcher ++ [g] with
      | nil => simp at hbat
      | cons a rest =>
        simp only [hbat] at this
        exact this
    · simp only [hlen, if_false]
      exact ⟨hb', hc'⟩

/-- groups of one single-group entry, fed in order -/
theorem applyEntry_good (s : St) (f : Nat) (e : Entry) (hb : Base s f) (hc : Cov s f)
    (hs : single e = true) (hsnap : s.snap < e.idx) (hpos : 0 < e.idx) (hlast : s.lastFed < e.idx)
    (hnew : ∀ x ∈ groups s, x.idx ≤ max f e.idx → x.idx ≤ f ∨ x ∈ streamEntryWith s.keepIdx e) :
    Base (applyEntry s e) (max f e.idx) ∧ Cov (applyEntry s e) (max f e.idx) := by
  unfold applyEntry
  have hlen := stream_single_length s.keepIdx e hs
  have hidx := stream_single_idx s.keepIdx e hs
  -- the state after the ghost update
  have hbat0 : ∀ g ∈ s.batcher, s.snap < g.idx ∧ g.idx ≤ e.idx ∧ 0 < g.idx := by
    intro g hg
    have := hb.bat g hg
    exact ⟨this.1, by omega, this.2.2⟩
  have hfed0 : e.idx ≤ max f e.idx ∧ s.snap ≤ max f e.idx := ⟨by omega, by have := hb.fed.2; omega⟩
  have hb0 : Base { s with lastFed := e.idx, front := max s.front e.idx } (max f e.idx) :=
    { hb.mono (Nat.le_max_left _ _) with bat := hbat0, fed := hfed0 }
  have hc0 : Cov { s with lastFed := e.idx, front := max s.front e.idx } f := hc
  cases hst : streamEntryWith s.keepIdx e with
  | nil =>
    simp only [List.foldl_nil]
    refine ⟨hb0, ?_⟩
    intro x hx hxf
    rcases hnew x hx hxf with h | h
    · exact hc0 x hx h
    · rw [hst] at h; simp at h
  | cons g rest =>
    have hrest : rest = [] := by
      rw [hst] at hlen
      simp at hlen
      exact hlen
    subst hrest
    simp only [List.foldl_cons, List.foldl_nil]
    have hgi : g.idx = e.idx := hidx g (by rw [hst]; simp)
    have hbf : Base { s with lastFed := e.idx, front := max s.front e.idx } (max f g.idx) := by
      rw [hgi]; exact hb0
    have key := feed_good_aux { s with lastFed := e.idx, front := max s.front e.idx } f g hbf hc0
      (by simp only; omega) (by simp only; omega) (by omega) (by
        intro x hx hxf
        rw [hgi] at hxf
        rcases hnew x hx hxf with h | h
        · exact Or.inl h
        · rw [hst] at h; simp at h; exact Or.inr h)
      (by have := hb.bnd.2.2; simp only; omega)
    rw [hgi] at key
    exact key

/-! ### the leader loop -/

theorem seek_min {α : Type} (l : List (Item α)) (hs : Sorted l) (n : Nat) (e it : Item α)
    (h : seek l n = some e) (hit : it ∈ l) (hn : n ≤ it.1) : e.1 ≤ it.1 := by
  induction l with
  | nil => simp at hit
  | cons a l ih =>
    unfold Sorted at hs
    rw [List.pairwise_cons] at hs
    unfold seek at h
    rw [List.find?_cons] at h
    by_cases hna : n ≤ a.1
    · simp [hna] at h
      subst h
      simp at hit
      rcases hit with hit | hit
      · subst hit; exact Nat.le_refl _
      · exact Nat.le_of_lt (hs.1 it hit)
    · simp [hna] at h
      simp at hit
      rcases hit with hit | hit
      · subst hit; exact absurd hn hna
      · exact ih hs.2 h hit

theorem sorted_key_inj {α : Type} (l : List (Item α)) (hs : Sorted l) (a b : Item α)
    (ha : a ∈ l) (hb : b ∈ l) (h : a.1 = b.1) : a = b := by
  induction l with
  | nil => simp at ha
  | cons x l ih =>
    unfold Sorted at hs
    rw [List.pairwise_cons] at hs
    simp at ha hb
    rcases ha with ha | ha <;> rcases hb with hb | hb
    · rw [ha, hb]
    · subst ha; have := hs.1 b hb; omega
    · subst hb; have := hs.1 a ha; omega
    · exact ih hs.2 ha hb

theorem consume_some {α : Type} (q : Q α) (e : Item α) (h : q.nextEv = some e) :
    consume q = ({ q with nextFrom := e.1 + 1, nextEv := seek q.items (e.1 + 1) }, some e) := by
  simp [consume, h]

theorem consume_none {α : Type} (q : Q α) (h : q.nextEv = none) : consume q = (q, none) := by
  simp [consume, h]

/-- one iteration's worth of reasoning, then induction on the fuel -/
theorem pump_good (fuel : Nat) (s : St) (f : Nat) (hb : Base s f) (hc : Cov s f) :
    Base (pump fuel s) f ∧ Cov (pump fuel s) f := by
  induction fuel generalizing s with
  | zero => exact ⟨hb, hc⟩
  | succ fuel ih =>
    unfold pump
    by_cases hl : s.leader = true
    · simp only [hl, Bool.not_true, Bool.false_eq_true, if_false]
      cases hheld : s.held with
      | some it =>
        obtain ⟨k, b⟩ := it
        simp only
        obtain ⟨h1, h2, h3, h4, h5⟩ := hb.heldI (k, b) hheld
        by_cases hk : k ≤ s.hwm
        · -- the HWM has passed it: dropped
          rw [if_pos hk]
          have hH : ∀ it, (none : Option (Nat × Batch)) = some it →
              (∀ g ∈ it.2, g.idx ≤ it.1) ∧ it.1 < s.fifo.nextFrom ∧ it.1 ≤ s.fifo.highest ∧
              (it ∈ s.fifo.items ∨ it.1 ≤ s.maxIn) ∧ (s.hwm < it.1 ∨ it.1 ≤ s.maxIn) := by
            intro it hit; cases hit
          apply ih
          · exact { hb with heldI := hH }
          · intro g hg hgf
            rcases hc g hg hgf with h | h | h
            · exact Or.inl h
            · right; left
              rcases h with h | ⟨it, hit, hlt, _⟩
              · exact Or.inl h
              · rw [hheld] at hit; cases hit; simp only at hlt; omega
            · exact Or.inr (Or.inr h)
        · rw [if_neg hk]
          by_cases hu : s.decodable b = false
          · -- the stored bytes do not decompress: dropped
            rw [if_pos hu]
            have hH : ∀ it, (none : Option (Nat × Batch)) = some it →
                (∀ g ∈ it.2, g.idx ≤ it.1) ∧ it.1 < s.fifo.nextFrom ∧ it.1 ≤ s.fifo.highest ∧
                (it ∈ s.fifo.items ∨ it.1 ≤ s.maxIn) ∧ (s.hwm < it.1 ∨ it.1 ≤ s.maxIn) := by
              intro it hit; cases hit
            apply ih
            · exact { hb with heldI := hH }
            · intro g hg hgf
              rcases hc g hg hgf with h | h | h
              · left
                rcases h with (h | ⟨d, hd, hgd⟩) | h
                · exact Or.inl (Or.inl h)
                · exact Or.inl (Or.inr ⟨d, by simp [hd], hgd⟩)
                · exact Or.inr h
              · rcases h with h | ⟨it, hit, _, hgi⟩
                · exact Or.inr (Or.inl (Or.inl h))
                · rw [hheld] at hit; cases hit
                  left; left; right
                  exact ⟨(k, b), by simp, hgi⟩
              · exact Or.inr (Or.inr h)
          rw [if_neg hu]
          by_cases hup : s.up = true
          · -- delivered
            rw [if_pos hup]
            have hH : ∀ it, (none : Option (Nat × Batch)) = some it →
                (∀ g ∈ it.2, g.idx ≤ it.1) ∧ it.1 < s.fifo.nextFrom ∧ it.1 ≤ s.fifo.highest ∧
                (it ∈ s.fifo.items ∨ it.1 ≤ s.maxIn) ∧ (k < it.1 ∨ it.1 ≤ s.maxIn) := by
              intro it hit; cases hit
            have hB : k ≤ max s.fifo.highest s.maxIn ∧ s.fifo.nextFrom ≤ max s.fifo.highest s.maxIn + 1 ∧
                s.fifo.highest ≤ f := by
              have := hb.bnd
              exact ⟨by omega, this.2.1, this.2.2⟩
            apply ih
            · exact { hb with heldI := hH, bnd := hB }
            · intro g hg hgf
              rcases hc g hg hgf with h | h | h
              · left
                rcases h with (⟨d, hd, hgd⟩ | h) | h
                · exact Or.inl (Or.inl ⟨d, by simp [hd], hgd⟩)
                · exact Or.inl (Or.inr h)
                · exact Or.inr h
              · rcases h with ⟨it, hit, hlive, hgi⟩ | ⟨it, hit, _, hgi⟩
                · right; left; left
                  refine ⟨it, hit, ?_, hgi⟩
                  unfold Live at *
                  simp only at *
                  omega
                · rw [hheld] at hit; cases hit
                  left; left; left
                  exact ⟨(k, b), by simp, hgi⟩
              · right; right
                refine ⟨h.1, h.2.1, ?_⟩
                have := h.2.1
                simp only at *
                omega
          · rw [if_neg hup]
            by_cases hmr : givesUpOf s.maxRetries s.giveUpOnRejection s.failStatus = true
            · -- the finite retry limit is exhausted: dropped
              rw [if_pos hmr]
              have hH : ∀ it, (none : Option (Nat × Batch)) = some it →
                  (∀ g ∈ it.2, g.idx ≤ it.1) ∧ it.1 < s.fifo.nextFrom ∧ it.1 ≤ s.fifo.highest ∧
                  (it ∈ s.fifo.items ∨ it.1 ≤ s.maxIn) ∧ (s.hwm < it.1 ∨ it.1 ≤ s.maxIn) := by
                intro it hit; cases hit
              apply ih
              · exact { hb with heldI := hH }
              · intro g hg hgf
                rcases hc g hg hgf with h | h | h
                · left
                  rcases h with (h | ⟨d, hd, hgd⟩) | h
                  · exact Or.inl (Or.inl h)
                  · exact Or.inl (Or.inr ⟨d, by simp [hd], hgd⟩)
                  · exact Or.inr h
                · rcases h with h | ⟨it, hit, _, hgi⟩
                  · exact Or.inr (Or.inl (Or.inl h))
                  · rw [hheld] at hit; cases hit
                    left; left; right
                    exact ⟨(k, b), by simp, hgi⟩
                · exact Or.inr (Or.inr h)
            · rw [if_neg hmr]
              exact ⟨hb, hc⟩
      | none =>
        simp only
        cases hne : s.fifo.nextEv with
        | none =>
          rw [consume_none _ hne]
          exact ⟨hb, hc⟩
        | some e =>
          obtain ⟨k, b⟩ := e
          rw [consume_some _ _ hne]
          simp only
          have hseek : seek s.fifo.items s.fifo.nextFrom = some (k, b) := by rw [← hb.fifo.head]; exact hne
          have hmem := seek_some_mem hseek
          have hge := seek_some_ge hseek
          have hq' : Inv { s.fifo with nextFrom := k + 1, nextEv := seek s.fifo.items (k + 1) } :=
            ⟨hb.fifo.sorted, hb.fifo.bounded, rfl⟩
          have hkh : k ≤ s.fifo.highest := hb.fifo.bounded (k, b) hmem
          by_cases hk : k ≤ s.hwm
          · -- skipped
            rw [if_pos hk]
            have hH : ∀ it, (none : Option (Nat × Batch)) = some it →
                (∀ g ∈ it.2, g.idx ≤ it.1) ∧ it.1 < k + 1 ∧ it.1 ≤ s.fifo.highest ∧
                (it ∈ s.fifo.items ∨ it.1 ≤ s.maxIn) ∧ (s.hwm < it.1 ∨ it.1 ≤ s.maxIn) := by
              intro it hit; cases hit
            have hB : s.hwm ≤ max s.fifo.highest s.maxIn ∧ k + 1 ≤ max s.fifo.highest s.maxIn + 1 ∧
                s.fifo.highest ≤ f := by
              have := hb.bnd
              exact ⟨this.1, by omega, this.2.2⟩
            apply ih
            · exact { hb with fifo := hq', heldI := hH, bnd := hB }
            · intro g hg hgf
              rcases hc g hg hgf with h | h | h
              · exact Or.inl h
              · right; left
                rcases h with ⟨it, hit, hlive, hgi⟩ | ⟨it, hit, _, _⟩
                · left
                  refine ⟨it, hit, ?_, hgi⟩
                  unfold Live at *
                  simp only at *
                  omega
                · rw [hheld] at hit; cases hit
              · exact Or.inr (Or.inr h)
          · rw [if_neg hk]
            have hH : ∀ it, some (k, b) = some it →
                (∀ g ∈ it.2, g.idx ≤ it.1) ∧ it.1 < k + 1 ∧ it.1 ≤ s.fifo.highest ∧
                (it ∈ s.fifo.items ∨ it.1 ≤ s.maxIn) ∧ (s.hwm < it.1 ∨ it.1 ≤ s.maxIn) := by
              intro it hit
              cases hit
              exact ⟨hb.lab (k, b) hmem, by simp, hkh, Or.inl hmem, Or.inl (by simp only; omega)⟩
            have hB : s.hwm ≤ max s.fifo.highest s.maxIn ∧ k + 1 ≤ max s.fifo.highest s.maxIn + 1 ∧
                s.fifo.highest ≤ f := by
              have := hb.bnd
              exact ⟨this.1, by omega, this.2.2⟩
            apply ih
            · exact { hb with fifo := hq', heldI := hH, bnd := hB }
            · intro g hg hgf
              rcases hc g hg hgf with h | h | h
              · exact Or.inl h
              · right; left
                rcases h with ⟨it, hit, hlive, hgi⟩ | ⟨it, hit, _, _⟩
                · by_cases hsame : it.1 = k
                  · -- it is the item just taken: now held
                    have : it = (k, b) := sorted_key_inj _ hb.fifo.sorted it (k, b) hit hmem hsame
                    subst this
                    right
                    exact ⟨(k, b), rfl, by simp only; omega, hgi⟩
                  · left
                    refine ⟨it, hit, ?_, hgi⟩
                    have hmin := seek_min _ hb.fifo.sorted _ _ it hseek hit hlive.1
                    unfold Live at *
                    simp only at *
                    omega
                · rw [hheld] at hit; cases hit
              · exact Or.inr (Or.inr h)
    · have : s.leader = false := by simpa using hl
      simp only [this, Bool.not_false, if_true]
      exact ⟨hb, hc⟩

theorem pumpAll_good (s : St) (f : Nat) (hb : Base s f) (hc : Cov s f) :
    Base (pumpAll s) f ∧ Cov (pumpAll s) f := pump_good _ s f hb hc

end RqModel.CdcPipe

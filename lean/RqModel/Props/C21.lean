/-
C21  Backups are complete, point-in-time consistent copies.

Model: RqModel/Model/Backup.lean. Ties: regenerated facts (RqModel/Gen/Backup.lean, read
from the current sources on every run) connect each model parameter to the code; the
correspondence runs exercise the real cluster.Service/Client over a cutting connection at
every byte position, and a live Store under a cross-table-invariant write load for every
format and flag.

Assumed laws (parameters, never axioms): `GzipLaw` (round trip; a strict prefix of a gzip
stream does not decode). For the vacuum / DELETE formats (SQLite online backup API) and for
reads inside one SQLite read transaction, point-in-time consistency is SQLite's contract;
it is exercised for real by the live run, not proved.
-/
import RqModel.Model.Backup
import RqModel.Gen.Backup
namespace C21
open RqModel.Backup

/-! ### facts regenerated from the sources -/

/-- cluster/client.go `Backup` has no branch that copies the connection through undecoded,
and both branches (compress on/off) create a gzip reader: the model's `validate = true`. -/
theorem client_decodes_every_stream :
    RqModel.Gen.Backup.clientBackupRawCopy = some false ∧
    RqModel.Gen.Backup.clientBackupGzipReaders = some 2 := by decide

/-- cluster/service.go forces `br.Compress = true` before streaming into the connection -/
theorem service_always_compresses : RqModel.Gen.Backup.serviceForcesCompress = some true := by decide

/-- db/db.go `Dump` begins a transaction before its first query and ends it when it returns:
the model's `inReadTx = true` -/
theorem dump_runs_in_read_tx :
    RqModel.Gen.Backup.dumpBeginsReadTx = some true ∧ RqModel.Gen.Backup.dumpEndsTx = some true := by decide

/-- ... and EVERY read of `Dump` goes through the one connection that transaction was begun
on: the receiver is used, in source order, to take that connection from the read pool and
then only as `db.queryWithConn(…, conn)` (table list, columns of a table, rows of a table,
indexes/triggers/views); it is never handed to a helper. A query through any other method
(`QueryStringStmt`, `roDB.QueryContext`, …) would run on another pooled connection, outside
the transaction, and see a later state than the tables and rows already dumped. -/
theorem dump_reads_only_through_its_connection :
    RqModel.Gen.Backup.dumpReceiverUses =
      ["db.roDB.Conn/context.Background()", "db.queryWithConn/conn", "db.queryWithConn/conn",
       "db.queryWithConn/conn", "db.queryWithConn/conn"] := by decide

/-- each of those four queries has its result's `Error` tested, with a `return` when it is
set: a query SQLite rejects (carried in the result, not in `err`) makes `Dump` fail instead
of silently omitting what it was to read -/
theorem dump_fails_when_a_query_fails :
    RqModel.Gen.Backup.dumpResultErrorChecks = some 4 := by decide

/-- store/store.go `Backup` opens and copies the main file only after taking the gate as
"backup" (released by defer); every checkpoint in the store package is either inside
`fsmSnapshot` after it took the gate as "snapshot", or in `recoverNode` (offline, before the
store is open): the model's enabling conditions of `copyChunk` and `checkpoint`. -/
theorem copy_and_checkpoint_are_gated :
    RqModel.Gen.Backup.backupCopyUnderGate = some true ∧
    RqModel.Gen.Backup.snapshotCheckpointsUnderGate = some true ∧
    RqModel.Gen.Backup.checkpointSites =
      ["state.go:recoverNode", "store.go:fsmSnapshot", "store.go:fsmSnapshot"] := by decide

/-- store/store.go `Backup` closes its gzip writer (which writes the trailer) only when the
backup succeeded, at all three sites: the model's `closeOnErr = false` -/
theorem gzip_closed_only_on_success :
    RqModel.Gen.Backup.backupGzipCloseSites = some 3 ∧
    RqModel.Gen.Backup.backupGzipClosedOnlyOnSuccess = some true := by decide

/-- http/service.go `handleBackup` aborts a response that has started when the backup fails:
the model's `abort = true` -/
theorem http_aborts_started_response :
    RqModel.Gen.Backup.httpBackupAbortsStartedResponse = some true := by decide

/-- the wrapper through which `handleBackup` streams declares `Write` only: no `ReadFrom` /
`WriteTo` fast path through which `io.Copy` could bypass the `started` flag -/
theorem backup_writer_has_no_fast_path :
    RqModel.Gen.Backup.backupResponseWriterMethods = ["Write"] := by decide

/-! ### 1. binary backup under the gate -/

structure Inv (d : Db) : Prop where
  main_le : d.main ≤ d.n
  copied  : d.gate = .backup → d.began = d.main ∧ ∀ v ∈ d.copied, v = d.main
  done    : ∀ b ∈ d.done, b.1 ≤ d.n ∧ ∀ v ∈ b.2, v = b.1

theorem inv_init : Inv {} := by
  constructor <;> simp

theorem inv_step (d : Db) (e : Ev) (h : Inv d) : Inv (stepDb d e) := by
  obtain ⟨h1, h2, h3⟩ := h
  cases e with
  | write =>
    refine ⟨by simp [stepDb]; omega, by simpa [stepDb] using h2, ?_⟩
    intro b hb
    have := h3 b (by simpa [stepDb] using hb)
    exact ⟨by simp [stepDb]; omega, this.2⟩
  | snapBegin =>
    by_cases hg : d.gate = .free
    · simp only [stepDb, hg, if_true]
      exact ⟨h1, by simp, h3⟩
    · simp only [stepDb, hg, if_false]
      exact ⟨h1, h2, h3⟩
  | checkpoint k =>
    by_cases hg : d.gate = .snapshot
    · simp only [stepDb, hg, if_true]
      exact ⟨by simp; omega, by simp [hg], h3⟩
    · simp only [stepDb, hg, if_false]
      exact ⟨h1, h2, h3⟩
  | snapEnd =>
    by_cases hg : d.gate = .snapshot
    · simp only [stepDb, hg, if_true]
      exact ⟨h1, by simp, h3⟩
    · simp only [stepDb, hg, if_false]
      exact ⟨h1, h2, h3⟩
  | backupBegin =>
    by_cases hg : d.gate = .free
    · simp only [stepDb, hg, if_true]
      exact ⟨h1, by simp, h3⟩
    · simp only [stepDb, hg, if_false]
      exact ⟨h1, h2, h3⟩
  | copyChunk =>
    by_cases hg : d.gate = .backup
    · simp only [stepDb, hg, if_true]
      refine ⟨h1, ?_, h3⟩
      intro _
      refine ⟨(h2 hg).1, ?_⟩
      intro v hv
      simp at hv
      rcases hv with hv | hv
      · exact (h2 hg).2 v hv
      · exact hv
    · simp only [stepDb, hg, if_false]
      exact ⟨h1, h2, h3⟩
  | backupEnd =>
    by_cases hg : d.gate = .backup
    · simp only [stepDb, hg, if_true]
      refine ⟨h1, by simp, ?_⟩
      intro b hb
      simp at hb
      rcases hb with hb | hb
      · exact h3 b hb
      · subst hb
        have := h2 hg
        exact ⟨by simp only; omega, by simp only; rw [this.1]; exact this.2⟩
    · simp only [stepDb, hg, if_false]
      exact ⟨h1, h2, h3⟩

theorem inv_run (d : Db) (evs : List Ev) (h : Inv d) : Inv (runDb d evs) := by
  induction evs generalizing d with
  | nil => exact h
  | cons e rest ih => exact ih _ (inv_step d e h)

/-- **A binary backup is the main file of ONE committed state.** For every interleaving
of commits, snapshots (with any number of partial or full checkpoints), and backups
copying the main file in any number of chunks: every chunk of a finished backup is the
main file AS IT WAS WHEN THE BACKUP TOOK THE GATE (`b.1`), and that version is a committed
prefix (`b.1 ≤ n`). (That no checkpoint can run while the gate is held is the model's
enabling condition of `checkpoint`; its tie to the code is `copy_and_checkpoint_are_gated`
and the sequential-schedule run on the real Store.) -/
theorem binary_backup_is_some_committed_prefix (evs : List Ev) :
    ∀ b ∈ (runDb {} evs).done, b.1 ≤ (runDb {} evs).n ∧ ∀ v ∈ b.2, v = b.1 :=
  (inv_run _ evs inv_init).done

/-- while a backup holds the gate no step changes the main file -/
theorem main_constant_under_backup_gate (d : Db) (e : Ev) (h : d.gate = .backup) :
    (stepDb d e).main = d.main ∧ ((stepDb d e).gate = .backup ∨ e = .backupEnd) := by
  cases e <;> simp [stepDb, h]

/-! ### 2. SQL dump -/

/-- **Inside a read transaction every table is dumped as of the same committed state**,
whatever commits while the dump runs -/
theorem dump_in_read_tx_is_point_in_time (s0 : Nat) (rest : List Nat) :
    ∀ x ∈ dump true (s0 :: rest), x = s0 := by
  intro x hx
  simp [dump] at hx
  rcases hx with hx | hx <;> simp_all

/-- without one (the tree before the `fix:` commit) two tables can be dumped as of
different commits — observed on the real store as "table a holds 1..67, table b 68 rows" -/
theorem dump_without_tx_witness : dump false [67, 68] = [67, 68] ∧ (67 : Nat) ≠ 68 := by decide

/-! ### 3. relay through another node -/

theorem body_of_cut (frame enc : List UInt8) (cut : Nat) (h : frame.length ≤ ((frame ++ enc).take cut).length) :
    ((frame ++ enc).take cut).drop frame.length = enc.take (cut - frame.length) := by
  have hc : frame.length ≤ cut := by
    simp [List.length_take] at h; omega
  rw [List.take_append]
  have : frame.take cut = frame := List.take_of_length_le hc
  rw [this, List.drop_left]

/-- **An incomplete transfer is an error**, for both values of the compress flag, wherever
the stream between the nodes ends — inside the response frame, before the first backup byte,
or anywhere inside the compressed backup (a transfer the network cut; a backup the serving
node could not produce is `serving_failure_is_error`). -/
theorem incomplete_transfer_is_error (G : GzipLaw) (compress respErr : Bool)
    (frame payload : List UInt8) (cut : Nat)
    (hcut : cut < (frame ++ G.enc payload).length) :
    clientBackup G true compress frame respErr payload cut = .error := by
  unfold clientBackup clientStream
  simp only
  by_cases h1 : ((frame ++ G.enc payload).take cut).length < frame.length
  · rw [if_pos h1]
  · rw [if_neg h1]
    cases respErr
    · have hb := body_of_cut frame (G.enc payload) cut (by omega)
      have hlt : cut - frame.length < (G.enc payload).length := by
        simp [List.length_append] at hcut
        simp [List.length_take] at h1
        omega
      have hdec := G.cut payload (cut - frame.length) hlt
      simp only [Bool.false_eq_true, if_false, hb, hdec]
      cases compress <;> simp
    · simp

/-- a refused request is an error and delivers nothing -/
theorem refused_is_error (G : GzipLaw) (validate compress : Bool) (frame payload : List UInt8) (cut : Nat) :
    clientBackup G validate compress frame true payload cut = .error := by
  unfold clientBackup clientStream
  simp only
  split <;> simp

/-- a complete transfer succeeds with exactly the backup (compress=false) or exactly the
compressed stream the serving node produced (compress=true) -/
theorem complete_transfer_ok (G : GzipLaw) (compress : Bool) (frame payload : List UInt8) (cut : Nat)
    (hcut : (frame ++ G.enc payload).length ≤ cut) :
    clientBackup G true compress frame false payload cut =
      .ok (if compress then G.enc payload else payload) := by
  unfold clientBackup clientStream
  have ht : (frame ++ G.enc payload).take cut = frame ++ G.enc payload := List.take_of_length_le hcut
  simp only [ht]
  have h1 : ¬ (frame ++ G.enc payload).length < frame.length := by simp
  simp only [h1, if_false, Bool.false_eq_true, List.drop_left, G.round]
  cases compress <;> simp

/-- THE DEFECT that was repaired (`validate = false`, the client before the `fix:` commit):
with compress=true every cut after the response frame was a SUCCESS carrying a prefix. -/
theorem unvalidated_compress_returns_any_prefix (G : GzipLaw) (frame payload : List UInt8) (cut : Nat)
    (h : frame.length ≤ cut) :
    clientBackup G false true frame false payload cut = .ok ((G.enc payload).take (cut - frame.length)) := by
  unfold clientBackup clientStream
  have hl : ¬ ((frame ++ G.enc payload).take cut).length < frame.length := by
    simp [List.length_take]; omega
  simp only [hl, if_false, Bool.false_eq_true, if_true]
  rw [body_of_cut frame (G.enc payload) cut (by omega)]

/-- the length-level function the driver executes agrees with the byte-level model -/
theorem len_model_agrees (G : GzipLaw) (validate compress respErr : Bool)
    (frame payload : List UInt8) (cut : Nat) :
    clientBackupLen validate compress frame.length (G.enc payload).length respErr cut =
      match clientBackup G validate compress frame respErr payload cut with
      | .error => .error
      | .ok b =>
        if cut - frame.length < (G.enc payload).length then .truncated b.length else .complete := by
  unfold clientBackupLen clientBackup clientStream
  simp only
  have hlen : ((frame ++ G.enc payload).take cut).length = min cut (frame.length + (G.enc payload).length) := by
    simp [List.length_take, List.length_append]
  rw [hlen]
  by_cases h1 : min cut (frame.length + (G.enc payload).length) < frame.length
  · simp [h1]
  · simp only [h1, if_false]
    cases respErr
    · simp only [Bool.false_eq_true, if_false]
      have hfc : frame.length ≤ cut := by omega
      rw [body_of_cut frame (G.enc payload) cut (by rw [hlen]; omega)]
      by_cases hfull : (G.enc payload).length ≤ cut - frame.length
      · -- complete
        have hb : min cut (frame.length + (G.enc payload).length) - frame.length = (G.enc payload).length := by omega
        have ht : (G.enc payload).take (cut - frame.length) = G.enc payload := List.take_of_length_le hfull
        have hn : ¬ cut - frame.length < (G.enc payload).length := by omega
        simp only [hb, if_true, ht, G.round, hn, if_false]
        cases compress <;> cases validate <;> simp
      · have hlt : cut - frame.length < (G.enc payload).length := by omega
        have hb : min cut (frame.length + (G.enc payload).length) - frame.length = cut - frame.length := by omega
        have hne : ¬ cut - frame.length = (G.enc payload).length := by omega
        have hdec := G.cut payload (cut - frame.length) hlt
        simp only [hb, hne, if_false, hdec, hlt, if_true]
        cases compress <;> cases validate <;> simp [List.length_take] <;> omega
    · simp

/-! ### 3b. the serving node's backup fails part way -/

/-- THE FULL STATEMENT for a backup whose production fails on the serving node after its
source yielded `produced`: whatever arrives, the relaying client reports an error. -/
def serving_failure_full (G : GzipLaw) (closeOnErr : Bool) : Prop :=
  ∀ (compress : Bool) (frame produced : List UInt8) (cut : Nat),
    relayed G closeOnErr true compress frame produced false cut = .error

/-- **A backup that could not be produced is an error on the relaying node** (the tree as it
is: the serving node leaves its gzip stream unterminated after a failure), for both values
of the compress flag and wherever the stream ends. -/
theorem serving_failure_is_error (G : GzipLaw) : serving_failure_full G false := by
  intro compress frame produced cut
  unfold relayed served clientStream
  simp only [Bool.or_false, Bool.false_eq_true, if_false]
  by_cases h1 : ((frame ++ G.open_ produced).take cut).length < frame.length
  · rw [if_pos h1]
  · rw [if_neg h1]
    have hb := body_of_cut frame (G.open_ produced) cut (by omega)
    have hdec := G.open_cut produced (cut - frame.length)
    simp only [hb, hdec]
    cases compress <;> simp

/-- the defect that was repaired (`closeOnErr = true`): the serving node terminated the gzip
stream of the PARTIAL data, so the complete arrival of that stream was a success carrying
a partial (possibly empty) backup — for every gzip satisfying the laws. Observed on the real
Store + cluster.Service + cluster.Client with an unreadable database file. -/
theorem serving_failure_closed_witness (G : GzipLaw) : ¬ serving_failure_full G true := by
  intro h
  have := h false [] [] (G.enc []).length
  unfold relayed served at this
  simp only [Bool.or_true, if_true] at this
  have hc := complete_transfer_ok G false [] [] (G.enc []).length (by simp)
  unfold clientBackup at hc
  rw [hc] at this
  simp at this

/-! ### 4. the HTTP surface -/

/-- THE FULL STATEMENT at the HTTP API: a backup that fails after `k` bytes is visible to the
client as an error (error status, or a response that does not end normally) -/
def http_failure_full (abort : Bool) : Prop :=
  ∀ k errLen, httpClientSeesError (httpBackup abort k true errLen) = true

theorem http_failure_is_visible : http_failure_full true := by
  intro k errLen
  unfold httpBackup httpClientSeesError
  by_cases hk : k = 0 <;> simp [hk]

/-- before the `fix:` commit: 200, body = partial backup + error text, normal end -/
theorem http_failure_appended_witness : ¬ http_failure_full false := by
  intro h
  have := h 1 30
  revert this
  decide

theorem http_success_is_clean (abort : Bool) (k errLen : Nat) :
    httpBackup abort k false errLen = ⟨200, k, true⟩ := by
  simp [httpBackup]

/-! ### non-vacuity -/

/-! ### `GzipLaw` is inhabited

A toy codec: the length in unary (`1` bytes), a `0`, then the data. An abandoned writer has
emitted the length prefix only (a non-empty partial stream for every non-empty input). The relay theorems above are therefore not vacuous. -/

def toyEnc (x : List UInt8) : List UInt8 := x.map (fun _ => (1 : UInt8)) ++ [0] ++ x

/-- parse: count the `1`s, expect a `0`, then exactly that many bytes -/
def toyDecAux (n : Nat) : List UInt8 → Option (List UInt8)
  | [] => none
  | b :: rest =>
    if b = 1 then toyDecAux (n + 1) rest
    else if b = 0 then (if rest.length = n then some rest else none)
    else none

def toyDec (s : List UInt8) : Option (List UInt8) := toyDecAux 0 s

theorem toyDecAux_whole (l x : List UInt8) (n : Nat) :
    toyDecAux n (l.map (fun _ => (1 : UInt8)) ++ [0] ++ x) = if x.length = n + l.length then some x else none := by
  induction l generalizing n with
  | nil => simp [toyDecAux]
  | cons a l ih =>
    simp only [List.map_cons, List.cons_append, toyDecAux, if_true, List.length_cons]
    rw [ih (n + 1)]
    have : n + 1 + l.length = n + (l.length + 1) := by omega
    rw [this]

theorem toyDecAux_cut (l x : List UInt8) (n p : Nat)
    (hp : p < l.length + 1 + x.length) (hx : x.length ≤ n + l.length) :
    toyDecAux n ((l.map (fun _ => (1 : UInt8)) ++ [0] ++ x).take p) = none := by
  induction l generalizing n p with
  | nil =>
    cases p with
    | zero => simp [toyDecAux]
    | succ p =>
      simp only [List.map_nil, List.nil_append, List.cons_append, List.take_succ_cons, toyDecAux]
      have h10 : ¬ ((0 : UInt8) = 1) := by decide
      rw [if_neg h10, if_pos trivial]
      have : ¬ (x.take p).length = n := by
        simp only [List.length_take, List.length_nil] at *
        omega
      rw [if_neg this]
  | cons a l ih =>
    cases p with
    | zero => simp [toyDecAux]
    | succ p =>
      simp only [List.map_cons, List.cons_append, List.take_succ_cons, toyDecAux, if_true]
      exact ih (n + 1) p (by simp only [List.length_cons] at hp; omega) (by simp only [List.length_cons] at hx; omega)

theorem toyDecAux_ones (l : List UInt8) (n p : Nat) :
    toyDecAux n ((l.map (fun _ => (1 : UInt8))).take p) = none := by
  induction l generalizing n p with
  | nil => simp [toyDecAux]
  | cons a l ih =>
    cases p with
    | zero => simp [toyDecAux]
    | succ p =>
      simp only [List.map_cons, List.take_succ_cons, toyDecAux, if_true]
      exact ih (n + 1) p

def toyGzip : GzipLaw where
  enc := toyEnc
  dec := toyDec
  round := by
    intro x
    unfold toyDec toyEnc
    rw [toyDecAux_whole x x 0]
    simp
  cut := by
    intro x p hp
    unfold toyDec toyEnc at *
    apply toyDecAux_cut x x 0 p
    · simp only [List.length_append, List.length_map, List.length_cons, List.length_nil] at hp; omega
    · omega
  -- an abandoned writer has emitted the length prefix and nothing else: no terminator, no data
  open_ := fun x => x.map (fun _ => (1 : UInt8))
  open_cut := by
    intro x p
    exact toyDecAux_ones x 0 p

/-- the relay theorems applied to the toy codec -/
example : serving_failure_full toyGzip false := serving_failure_is_error toyGzip

example (compress : Bool) (frame payload : List UInt8) (cut : Nat)
    (h : cut < (frame ++ toyGzip.enc payload).length) :
    clientBackup toyGzip true compress frame false payload cut = .error :=
  incomplete_transfer_is_error toyGzip compress false frame payload cut h

example : clientBackup toyGzip true false [9] false [7, 8] 6 = .ok [7, 8] ∧
    clientBackup toyGzip true false [9] false [7, 8] 5 = .error ∧
    relayed toyGzip false true false [9] [7, 8] false 6 = .error ∧
    toyGzip.open_ [7, 8] = [1, 1] ∧
    -- the partial stream of a failed backup arrives in full, or cut anywhere: an error
    relayed toyGzip false true false [9] [7, 8] false 3 = .error ∧
    relayed toyGzip false true true [9] [7, 8] false 2 = .error := by decide

example : (runDb {} [.write, .write, .snapBegin, .checkpoint 0, .snapEnd, .write, .backupBegin,
    .copyChunk, .write, .snapBegin, .checkpoint 5, .copyChunk, .backupEnd, .snapBegin, .checkpoint 5, .snapEnd]).done = [(1, [1, 1])] ∧
    (runDb {} [.write, .write, .snapBegin, .checkpoint 0, .snapEnd, .write, .backupBegin,
    .copyChunk, .write, .snapBegin, .checkpoint 5, .copyChunk, .backupEnd, .snapBegin, .checkpoint 5, .snapEnd]).main = 4 := by
  decide

example : clientBackupLen true true 8 23 false 20 = .error ∧ clientBackupLen false true 8 23 false 20 = .truncated 12 ∧
    clientBackupLen true true 8 23 false 31 = .complete := by decide

end C21

/-
Line-protocol driver for the upgrade model (component `upgrade`), used by the C08
correspondence run. Database contents are `Nat` (0 = the empty database).

  reset                                   → ok
  old7|old8tmp|old8|newtmp|new <dir>      → ok      dir = none | - (empty) | entry;entry…
       v7 entry  = <id>,<index.term|->,<m|n|d<content>>
       v8 entry  = <id>,<dir01>,<index.term|->,<content|->
       v10 entry = <id>,<index.term|->,<content|->,<crccontent|->
  plan <id>,<index.term>|none   /   plantmp <0|1>   → ok
  start | startold | startcore             → ok | err <kind>     (Upgrade7To8 then Upgrade8To10; startold: before
                                            5a94866; startcore: before the empty-directory fix)
  hasdata                                  → ok      (store.HasData before Store.Open: creates an empty wsnapshots)
  hasdata?                                 → yes | no   (its answer, as far as the snapshot directories go)
  cut78 <s | rt/<v8dir> | b/<v8dir> | ro/<v7dir>>                → ok
  cut810 <s | pt | ip/<k>/<cut8> | pd | cl/<v10dir>/<v8dir>>     → ok
       cut8 = n | mt | ft | rj/<v8dir>
  dump                                     → canonical state
-/
import RqModel.Model.Upgrade
namespace RqModel.UpgradeDrv
open RqModel.Util RqModel.Upgrade

abbrev DB := Nat

structure DState where
  s : US DB := {}

def init : DState := {}

def metaTok (id : Nat) (t : String) : Option (Option Meta) :=
  if t == "-" then some none
  else match t.splitOn "." with
    | [i, tm] => do pure (some ⟨id, ← i.toNat?, ← tm.toNat?⟩)
    | _ => none

def optNat (t : String) : Option (Option Nat) :=
  if t == "-" then some none else t.toNat?.map some

def parseDir {α} (entry : String → Option α) (t : String) : Option (Option (List α)) :=
  if t == "none" then some none
  else if t == "-" then some (some [])
  else ((t.splitOn ";").mapM entry).map some

def e7 (t : String) : Option (S7 DB) :=
  match t.splitOn "," with
  | [id, mt, st] => do
    let id ← id.toNat?
    let mt ← metaTok id mt
    let st ← if st == "m" then some St7.missing else if st == "n" then some St7.nodata
             else if st.startsWith "d" then (st.drop 1).toNat?.map St7.data else none
    pure { id := id, mt := mt, st := st }
  | _ => none

def e8 (t : String) : Option (S8 DB) :=
  match t.splitOn "," with
  | [id, dir, mt, db] => do
    let id ← id.toNat?
    let dir ← if dir == "1" then some true else if dir == "0" then some false else none
    pure { id := id, dir := dir, mt := ← metaTok id mt, db := ← optNat db }
  | _ => none

def e10 (t : String) : Option (S10 DB) :=
  match t.splitOn "," with
  | [id, mt, db, crc] => do
    let id ← id.toNat?
    pure { id := id, mt := ← metaTok id mt, db := ← optNat db, crc := ← optNat crc }
  | _ => none

def showMeta : Option Meta → String
  | none => "-"
  | some m => s!"{m.index}.{m.term}"

def showOptNat : Option Nat → String
  | none => "-"
  | some n => toString n

def show7 (x : S7 DB) : String :=
  let st := match x.st with
    | .missing => "m"
    | .nodata => "n"
    | .data d => s!"d{d}"
  s!"{x.id},{showMeta x.mt},{st}"

def show8 (x : S8 DB) : String := s!"{x.id},{if x.dir then 1 else 0},{showMeta x.mt},{showOptNat x.db}"

def show10 (x : S10 DB) : String :=
  let crc := match x.crc with
    | none => "-"
    | some c => if x.db == some c then "ok" else "stale"
  s!"{x.id},{showMeta x.mt},{showOptNat x.db},{crc}"

def sortBy {α} (key : α → Nat) (l : List α) : List α := l.mergeSort fun a b => key a ≤ key b

def showDir {α} (key : α → Nat) (f : α → String) : Option (List α) → String
  | none => "none"
  | some l => if l.isEmpty then "-" else ";".intercalate ((sortBy key l).map f)

def dump (s : US DB) : String :=
  let pl := match s.plan with
    | none => "none"
    | some (id, m) => s!"{id},{m.index}.{m.term}"
  s!"old7={showDir (·.id) show7 s.old7} old8tmp={showDir (·.id) show8 s.old8tmp} old8={showDir (·.id) show8 s.old8} newtmp={showDir (·.id) show10 s.newTmp} new={showDir (·.id) show10 s.new} plan={pl} plantmp={if s.planTmp then 1 else 0}"

def parseCut8 (ts : List String) : Option (Cut8 DB) :=
  match ts with
  | ["n"] => some .none
  | ["mt"] => some .metaTrunc
  | ["ft"] => some .fileTrunc
  | ["rj", j] => do
    match ← parseDir e8 j with
    | some l => pure (.rmJunk l)
    | none => none
  | _ => none

def parseCut78 (t : String) : Option (Cut78 DB) :=
  match t.splitOn "/" with
  | ["s"] => some .start
  | ["rt", j] => do
    match ← parseDir e8 j with
    | some l => pure (.rmTmp l)
    | none => none
  | ["b", j] => do
    match ← parseDir e8 j with
    | some l => pure (.building l)
    | none => none
  | ["ro", j] => (parseDir e7 j).map .rmOld
  | _ => none

def parseCut810 (t : String) : Option (Cut810 DB) :=
  match t.splitOn "/" with
  | ["s"] => some .start
  | ["pt"] => some .planTmp
  | ["pd"] => some .planDone
  | "ip" :: k :: rest => do pure (.inPlan (← k.toNat?) (← parseCut8 rest))
  | ["cl", tj, oj] => do pure (.cleanup (← parseDir e10 tj) (← parseDir e8 oj))
  | _ => none

def errStr (e : String) : String := "err " ++ e

def step (d : DState) (line : String) : DState × String :=
  match words line with
  | ["reset"] => ({}, "ok")
  | ["old7", t] =>
    match parseDir e7 t with
    | some v => ({ s := { d.s with old7 := v } }, "ok")
    | none => (d, "bad-op")
  | ["old8tmp", t] =>
    match parseDir e8 t with
    | some v => ({ s := { d.s with old8tmp := v } }, "ok")
    | none => (d, "bad-op")
  | ["old8", t] =>
    match parseDir e8 t with
    | some v => ({ s := { d.s with old8 := v } }, "ok")
    | none => (d, "bad-op")
  | ["newtmp", t] =>
    match parseDir e10 t with
    | some v => ({ s := { d.s with newTmp := v } }, "ok")
    | none => (d, "bad-op")
  | ["new", t] =>
    match parseDir e10 t with
    | some v => ({ s := { d.s with new := v } }, "ok")
    | none => (d, "bad-op")
  | ["plan", t] =>
    if t == "none" then ({ s := { d.s with plan := none } }, "ok")
    else match t.splitOn "," with
      | [id, m] =>
        match id.toNat? with
        | some id =>
          match metaTok id m with
          | some (some m) => ({ s := { d.s with plan := some (id, m) } }, "ok")
          | _ => (d, "bad-op")
        | none => (d, "bad-op")
      | _ => (d, "bad-op")
  | ["plantmp", b] =>
    if b == "1" then ({ s := { d.s with planTmp := true } }, "ok")
    else if b == "0" then ({ s := { d.s with planTmp := false } }, "ok")
    else (d, "bad-op")
  | ["start"] =>
    match start 0 d.s with
    | .ok s' => ({ s := s' }, "ok")
    | .error e => (d, errStr e)
  | ["startold"] =>
    match startOld 0 d.s with
    | .ok s' => ({ s := s' }, "ok")
    | .error e => (d, errStr e)
  | ["cut78", c] =>
    match parseCut78 c with
    | some c => ({ s := startCut 0 d.s (.in78 c) }, "ok")
    | none => (d, "bad-op")
  | ["cut810", c] =>
    match parseCut810 c with
    | some c => ({ s := startCut 0 d.s (.in810 c) }, "ok")
    | none => (d, "bad-op")
  | ["hasdata"] => ({ s := hasData d.s }, "ok")
  | ["hasdata?"] => (d, if hasDataAnswer d.s then "yes" else "no")
  | ["startcore"] =>
    match startCore 0 d.s with
    | .ok s' => ({ s := s' }, "ok")
    | .error e => (d, errStr e)
  | ["dump"] => (d, dump d.s)
  | _ => (d, "bad-op")

end RqModel.UpgradeDrv
--! driver: upgrade RqModel.UpgradeDrv

package store

// C37 (part b): the real store.Provider and the real backup.Uploader over a live single-node
// Store.
//
//  1. Provider.Provide with a fault-injecting destination: the retry loop of provider.go is
//     compared with the Lean model `uploader` (op `provide`): number of attempts, result, and
//     the exact destination bytes (the destination is rewound, not truncated).
//  2. The real Uploader (Start, short interval) + real Provider under a live write load with a
//     scripted storage client that fails some uploads. Every uploaded object is opened as a
//     SQLite database and must contain every write whose log index is at or below its label;
//     nothing may be uploaded while nothing changes; after the load stops the last successful
//     upload must be labelled with the store's applied index.

import (
	"bytes"
	"compress/gzip"
	"context"
	"errors"
	"expvar"
	"fmt"
	"io"
	"os"
	"path/filepath"
	"strconv"
	"strings"
	"sync"
	"sync/atomic"
	"testing"
	"time"

	"github.com/rqlite/rqlite/v10/auto/backup"
	command "github.com/rqlite/rqlite/v10/command/proto"
	rdb "github.com/rqlite/rqlite/v10/db"
)

// ---- fault-injecting io.WriteSeeker ----------------------------------------------------

type c37Attempt struct {
	written []byte
	failed  bool
}

type c37FaultWS struct {
	buf      []byte // destination content
	pos      int
	attempts []*c37Attempt
	// failAt[i] = number of bytes attempt i accepts before Write fails (-1 = never fails)
	failAt []int
	onFail func(attempt int)
}

func (w *c37FaultWS) Seek(off int64, whence int) (int64, error) {
	if whence != io.SeekStart || off != 0 {
		return 0, errors.New("c37FaultWS: only Seek(0, SeekStart) is supported")
	}
	w.pos = 0
	w.attempts = append(w.attempts, &c37Attempt{})
	return 0, nil
}

func (w *c37FaultWS) Write(p []byte) (int, error) {
	if len(w.attempts) == 0 {
		w.attempts = append(w.attempts, &c37Attempt{})
	}
	i := len(w.attempts) - 1
	a := w.attempts[i]
	limit := -1
	if i < len(w.failAt) {
		limit = w.failAt[i]
	}
	n := len(p)
	fail := false
	if limit >= 0 && len(a.written)+n > limit {
		n = limit - len(a.written)
		if n < 0 {
			n = 0
		}
		fail = true
	}
	for j := 0; j < n; j++ {
		if w.pos < len(w.buf) {
			w.buf[w.pos] = p[j]
		} else {
			w.buf = append(w.buf, p[j])
		}
		w.pos++
	}
	a.written = append(a.written, p[:n]...)
	if fail {
		a.failed = true
		if w.onFail != nil {
			f := w.onFail
			w.onFail = nil
			f(i)
		}
		return n, errors.New("c37FaultWS: scripted write failure")
	}
	return n, nil
}

// c37FaultWST is the same destination with a Truncate method, as an *os.File has.
type c37FaultWST struct{ c37FaultWS }

func (w *c37FaultWST) Truncate(size int64) error {
	if size < int64(len(w.buf)) {
		w.buf = w.buf[:size]
	}
	return nil
}

// c37FaultFile forwards to the real temporary file the Uploader created; the first
// attempt's writes fail after failAt bytes (a full disk, an I/O error).
type c37FaultFile struct {
	f       *os.File
	attempt int
	written int
	failAt  int
	onFail  func()
}

func (w *c37FaultFile) Seek(off int64, whence int) (int64, error) {
	w.attempt++
	w.written = 0
	return w.f.Seek(off, whence)
}
func (w *c37FaultFile) Truncate(size int64) error { return w.f.Truncate(size) }
func (w *c37FaultFile) Write(p []byte) (int, error) {
	if w.attempt == 1 && w.written+len(p) > w.failAt {
		n := w.failAt - w.written
		if n < 0 {
			n = 0
		}
		w.f.Write(p[:n])
		w.written += n
		if w.onFail != nil {
			f := w.onFail
			w.onFail = nil
			f()
		}
		return n, errors.New("c37FaultFile: scripted write failure")
	}
	w.written += len(p)
	return w.f.Write(p)
}

// c37E2EProvider is the real store.Provider behind a destination that fails once.
type c37E2EProvider struct {
	p      *Provider
	failAt int
	onFail func()
	used   bool
}

func (d *c37E2EProvider) LastIndex() (uint64, error) { return d.p.LastIndex() }
func (d *c37E2EProvider) Provide(w io.WriteSeeker) error {
	f, ok := w.(*os.File)
	if !ok || d.used {
		return d.p.Provide(w)
	}
	d.used = true
	return d.p.Provide(&c37FaultFile{f: f, failAt: d.failAt, onFail: d.onFail})
}

// c37BlockingWriter accepts the first chunk of a backup and then blocks until released: a slow
// client of an operator's /db/backup, during which Store.Backup holds the snapshot gate.
type c37BlockingWriter struct {
	holding chan struct{}
	release chan struct{}
	once    bool
}

func (w *c37BlockingWriter) Write(p []byte) (int, error) {
	if !w.once {
		w.once = true
		close(w.holding)
		<-w.release
	}
	return len(p), nil
}

// ---- scripted storage client ---------------------------------------------------------------

type c37Obj struct {
	id       string
	data     []byte
	ok       bool
	appliedA uint64 // store's applied index when Upload was entered
}

type c37Storage struct {
	mu       sync.Mutex
	s        *Store
	remoteID string
	objs     []c37Obj
	failPct  atomic.Int64
	rng      *vfRng
	calls    atomic.Int64
}

func (c *c37Storage) Upload(ctx context.Context, r io.Reader, id string) error {
	c.calls.Add(1)
	applied := c.s.DBAppliedIndex()
	b, err := io.ReadAll(r)
	if err != nil {
		return err
	}
	c.mu.Lock()
	defer c.mu.Unlock()
	fail := int64(c.rng.Intn(100)) < c.failPct.Load()
	c.objs = append(c.objs, c37Obj{id: id, data: b, ok: !fail, appliedA: applied})
	if fail {
		return errors.New("scripted upload failure")
	}
	c.remoteID = id
	return nil
}

func (c *c37Storage) CurrentID(ctx context.Context) (string, error) {
	c.mu.Lock()
	defer c.mu.Unlock()
	return c.remoteID, nil
}

func (c *c37Storage) String() string { return "c37-storage" }

// ---- helpers --------------------------------------------------------------------------------

func c37OpenStore(t *testing.T) (*Store, func()) {
	s, ln := mustNewStore(t)
	if err := s.Open(); err != nil {
		t.Fatalf("open: %v", err)
	}
	if err := s.Bootstrap(NewServer(s.ID(), s.Addr(), true)); err != nil {
		t.Fatalf("bootstrap: %v", err)
	}
	if _, err := s.WaitForLeader(60 * time.Second); err != nil {
		t.Fatalf("leader: %v", err)
	}
	return s, func() { s.Close(true); ln.Close() }
}

func c37ExecOnce(s *Store, stmts ...string) (uint64, error) {
	res, idx, err := s.Execute(context.Background(), executeRequestFromStrings(stmts, false, false))
	if err != nil {
		return 0, err
	}
	for _, r := range res {
		if e := r.GetError(); e != "" {
			return idx, errors.New(e)
		}
	}
	return idx, nil
}

func c37Transient(err error) bool {
	m := strings.ToLower(err.Error())
	for _, p := range []string{"not leader", "leadership lost", "leadership transfer", "timeout waiting for leader",
		"timed out enqueuing", "enqueue timeout", "no leader", "leader not known"} {
		if strings.Contains(m, p) {
			return true
		}
	}
	return false
}

// c37Exec retries the transient errors of a busy machine (leadership lost and regained, an
// enqueue timeout) for up to 90 s. A statement repeated after such an error may have been
// applied twice: harmless for every use below (filler rows, deletes, IF NOT EXISTS schema);
// the sequence-numbered writes use c37ExecOnce and a fresh number per attempt instead.
func c37Exec(s *Store, stmts ...string) (uint64, error) {
	deadline := time.Now().Add(90 * time.Second)
	for {
		idx, err := c37ExecOnce(s, stmts...)
		if err == nil || !c37Transient(err) || time.Now().After(deadline) {
			return idx, err
		}
		time.Sleep(100 * time.Millisecond)
		s.WaitForLeader(30 * time.Second)
	}
}

// c37Seqs opens backup bytes (optionally gzip) as a SQLite database and returns the seq set.
func c37Seqs(dir string, data []byte, gz bool) (map[int64]bool, error) {
	if gz {
		zr, err := gzip.NewReader(bytes.NewReader(data))
		if err != nil {
			return nil, fmt.Errorf("gunzip: %v", err)
		}
		d, err := io.ReadAll(zr)
		if err != nil {
			return nil, fmt.Errorf("gunzip: %v", err)
		}
		data = d
	}
	p := filepath.Join(dir, fmt.Sprintf("up-%d.db", time.Now().UnixNano()))
	if err := os.WriteFile(p, data, 0o600); err != nil {
		return nil, err
	}
	defer os.Remove(p)
	d, err := rdb.Open(p, false, false)
	if err != nil {
		return nil, fmt.Errorf("open: %v", err)
	}
	defer d.Close()
	rows, err := d.QueryStringStmt("SELECT seq FROM t")
	if err != nil {
		return nil, err
	}
	if len(rows) != 1 || rows[0].Error != "" {
		return nil, fmt.Errorf("query: %v", rows)
	}
	out := map[int64]bool{}
	for _, v := range rows[0].Values {
		out[v.Parameters[0].GetI()] = true
	}
	return out, nil
}

func c37ProviderChecks() int64 {
	if v, ok := stats.Get(numProviderChecks).(*expvar.Int); ok {
		return v.Value()
	}
	return 0
}

// ---- the test ----------------------------------------------------------------------------------

func TestVerifC37Store(t *testing.T) {
	rep := vfNewReport("C37", "real store.Provider.Provide over a live single-node Store with a fault-injecting destination (failures after k bytes on attempt i; all vacuum/compress combinations; retry budget exhausted or not), compared with the model's `provide`; real backup.Uploader + real Provider under a live write load with a storage client failing a share of uploads: every uploaded object opened as SQLite and checked against the log index of every write. A live run is non-trivial when it has a failed upload, a later successful one, and an idle period with zero uploads; distinct by configuration")
	defer rep.Write()
	r := vfNewRng(3700)
	dir := t.TempDir()

	s, closeStore := c37OpenStore(t)
	defer closeStore()
	if _, err := c37Exec(s, "CREATE TABLE IF NOT EXISTS t (id INTEGER PRIMARY KEY, seq INTEGER)", "CREATE TABLE IF NOT EXISTS big (id INTEGER PRIMARY KEY, b TEXT)"); err != nil {
		t.Fatalf("create: %v", err)
	}
	seq := int64(0)
	var wmu sync.Mutex
	idxOf := map[int64]uint64{} // seq -> log index
	write := func() error {
		deadline := time.Now().Add(90 * time.Second)
		for {
			wmu.Lock()
			seq++
			q := seq
			wmu.Unlock()
			idx, err := c37ExecOnce(s, fmt.Sprintf("INSERT INTO t(seq) VALUES(%d)", q))
			if err != nil {
				if c37Transient(err) && time.Now().Before(deadline) {
					// whether number q was written is unknown: it is simply not tracked (the oracle
					// only speaks about writes whose log index is known); try again with a new one
					rep.Count("live:write-retried-after-transient-error")
					time.Sleep(100 * time.Millisecond)
					s.WaitForLeader(30 * time.Second)
					continue
				}
				return err
			}
			wmu.Lock()
			idxOf[q] = idx
			wmu.Unlock()
			return nil
		}
	}
	for i := 0; i < 5; i++ {
		if err := write(); err != nil {
			t.Fatalf("write: %v", err)
		}
	}

	// ---------- 1. Provide retry loop vs. model ----------
	var segOps, segImpl [][]string
	provides := vfScale(24, 300)
	for i := 0; i < provides; i++ {
		vac, comp := r.Bool(), r.Bool()
		if i < 4 {
			vac, comp = i&1 == 1, i&2 == 2
		}
		p := NewProvider(s, vac, comp)
		p.retryInterval = time.Millisecond
		p.nRetries = r.Intn(4)
		nFail := r.Intn(p.nRetries + 3) // sometimes more failures than the budget allows
		if r.Chance(25) {
			nFail = 0
		}
		trunc := r.Bool()
		wst := &c37FaultWST{}
		ws := &wst.c37FaultWS
		var dest io.WriteSeeker = ws
		if trunc {
			dest = wst
		}
		for j := 0; j < nFail; j++ {
			switch r.Intn(3) {
			case 0:
				ws.failAt = append(ws.failAt, 0)
			case 1:
				ws.failAt = append(ws.failAt, r.Intn(200))
			default:
				ws.failAt = append(ws.failAt, 512+r.Intn(6000))
			}
		}
		if r.Chance(30) {
			_ = write()
		}
		err := p.Provide(dest)
		tflag := 0
		if trunc {
			tflag = 1
		}
		var toks []string
		for j, a := range ws.attempts {
			res := "fail"
			if j == len(ws.attempts)-1 && err == nil {
				res = "ok"
			}
			toks = append(toks, vfHexB(a.written)+":"+res)
		}
		// an attempt that must never be made (beyond the budget or after success)
		toks = append(toks, "xdeadbeef:ok")
		op := fmt.Sprintf("provide %d %d %s", tflag, p.nRetries, strings.Join(toks, " "))
		res := "fail"
		if err == nil {
			res = "ok"
		}
		got := fmt.Sprintf("%s %s attempts=%d", res, vfHexB(ws.buf), len(ws.attempts))
		segOps = append(segOps, []string{"new", op})
		segImpl = append(segImpl, []string{"ok", got})
		rep.Count(fmt.Sprintf("provide:vacuum=%v,compress=%v", vac, comp))
		rep.Count(fmt.Sprintf("provide:truncatable-destination=%v", trunc))
		rep.Count(fmt.Sprintf("provide:result=%s,attempts=%d", res, len(ws.attempts)))
		rep.Case(fmt.Sprintf("provide:%v:%v:%d:%v", vac, comp, p.nRetries, ws.failAt), len(ws.attempts) > 1)
		// property-level checks on the real loop
		if len(ws.attempts) > p.nRetries+1 {
			rep.Fail("provide:more-attempts-than-the-retry-budget", fmt.Sprintf("%d attempts with nRetries=%d", len(ws.attempts), p.nRetries), nil)
		}
		// (a scripted failure point beyond the size of the backup never fires: judge by what happened)
		nFailed := 0
		for _, a := range ws.attempts {
			if a.failed {
				nFailed++
			}
		}
		lastFailed := len(ws.attempts) > 0 && ws.attempts[len(ws.attempts)-1].failed
		if (err == nil) == lastFailed || (err == nil && nFailed != len(ws.attempts)-1) ||
			(err != nil && (nFailed != len(ws.attempts) || len(ws.attempts) != p.nRetries+1)) {
			rep.Fail("provide:result-does-not-match-failures", fmt.Sprintf("%d attempts of which %d failed, nRetries=%d, err=%v", len(ws.attempts), nFailed, p.nRetries, err), nil)
		}
		if err == nil {
			last := ws.attempts[len(ws.attempts)-1].written
			if len(ws.buf) > len(last) && !trunc {
				// a destination that cannot be truncated: documented limit of Provide
				rep.Count("provide:untruncatable-destination-longer-than-the-successful-backup")
			} else if len(ws.buf) > len(last) {
				rep.Fail("provide:destination-has-trailing-bytes-of-a-failed-attempt",
					fmt.Sprintf("Provide returned nil; the successful attempt wrote %d bytes but the (truncatable) destination holds %d", len(last), len(ws.buf)), nil)
			} else if !bytes.Equal(ws.buf, last) {
				rep.Fail("provide:destination-differs-from-successful-attempt", "", nil)
			}
			if seqs, e := c37Seqs(dir, last, comp); e != nil || len(seqs) == 0 {
				rep.Fail("provide:successful-attempt-is-not-a-database", fmt.Sprintf("%v", e), nil)
			}
		}
	}
	// directed: a failed attempt LONGER than the successful retry (the database shrinks in between)
	{
		var ins []string
		for i := 0; i < 40; i++ {
			ins = append(ins, fmt.Sprintf("INSERT INTO big(b) VALUES('%s')", vfHexB(r.Bytes(600))))
		}
		if _, err := c37Exec(s, ins...); err != nil {
			t.Fatalf("big: %v", err)
		}
		p := NewProvider(s, true, true)
		p.retryInterval = time.Millisecond
		wst := &c37FaultWST{c37FaultWS{failAt: []int{20000}}}
		ws := &wst.c37FaultWS
		ws.onFail = func(int) {
			go func() { c37Exec(s, "DELETE FROM big") }()
			time.Sleep(300 * time.Millisecond)
		}
		err := p.Provide(wst)
		if err == nil && len(ws.attempts) == 2 {
			a0, a1 := ws.attempts[0].written, ws.attempts[1].written
			op := fmt.Sprintf("provide 1 %d %s:fail %s:ok", p.nRetries, vfHexB(a0), vfHexB(a1))
			segOps = append(segOps, []string{"new", op})
			segImpl = append(segImpl, []string{"ok", fmt.Sprintf("ok %s attempts=2", vfHexB(ws.buf))})
			_, gzErr := c37Seqs(dir, ws.buf, true)
			rep.Note("directed Provide(vacuum,compress) into a truncatable destination: attempt 1 failed after %d bytes, attempt 2 wrote %d bytes and succeeded; destination is %d bytes; reading it as a gzip database: %v", len(a0), len(a1), len(ws.buf), gzErr)
			rep.Count("provide:failed-attempt-longer-than-the-successful-retry")
			if len(ws.buf) > len(a1) || gzErr != nil {
				rep.Fail("provide:destination-has-trailing-bytes-of-a-failed-attempt",
					fmt.Sprintf("vacuum+compress: attempt 1 failed after %d bytes, attempt 2 wrote %d bytes and Provide returned nil; destination holds %d bytes; reading it: %v", len(a0), len(a1), len(ws.buf), gzErr), nil)
			}
		} else {
			rep.Note("directed shrink scenario did not take the expected shape: err=%v attempts=%d", err, len(ws.attempts))
		}
	}
	// directed, end to end: the REAL Uploader with the real Provider; the Uploader's temporary
	// file refuses writes once, after 20000 bytes, and the database shrinks before the retry
	{
		var ins []string
		for i := 0; i < 40; i++ {
			ins = append(ins, fmt.Sprintf("INSERT INTO big(b) VALUES('%s')", vfHexB(r.Bytes(600))))
		}
		if _, err := c37Exec(s, ins...); err != nil {
			t.Fatalf("big: %v", err)
		}
		rp := NewProvider(s, true, true)
		rp.retryInterval = time.Millisecond
		e2e := &c37E2EProvider{p: rp, failAt: 20000}
		e2e.onFail = func() {
			go func() { c37Exec(s, "DELETE FROM big") }()
			time.Sleep(300 * time.Millisecond)
		}
		st := &c37Storage{s: s, rng: vfNewRng(3799)}
		up := backup.NewUploader(st, e2e, 10*time.Millisecond)
		ctx, cancel := context.WithCancel(context.Background())
		done := up.Start(ctx, nil)
		deadline := time.Now().Add(90 * time.Second)
		for st.calls.Load() == 0 && time.Now().Before(deadline) {
			time.Sleep(5 * time.Millisecond)
		}
		cancel()
		<-done
		st.mu.Lock()
		objs := st.objs
		st.mu.Unlock()
		if len(objs) == 0 || !e2e.used {
			rep.Note("end-to-end failed-attempt scenario: no upload observed (used=%v)", e2e.used)
		} else {
			o := objs[0]
			seqs, rerr := c37Seqs(dir, o.data, true)
			rep.Count("upload:after-a-failed-attempt-inside-provide")
			rep.Note("end to end: the Uploader uploaded %d bytes labelled %s after a failed first attempt of 20000 bytes; reading the object: err=%v rows=%d", len(o.data), o.id, rerr, len(seqs))
			if rerr != nil {
				rep.Fail("upload:object-is-not-a-readable-backup:failed-attempt-inside-provide",
					fmt.Sprintf("the real Uploader uploaded an object labelled %s of %d bytes that cannot be read back (%v): the first backup attempt inside Provide failed after writing 20000 bytes to the temporary file, the retry wrote a shorter backup over its beginning", o.id, len(o.data), rerr), nil)
			}
		}
	}
	rep.vfCompareSegments("uploader", segOps, segImpl)

	// ---------- 1c. directed schedule: the snapshot gate is held by an operator's backup ----------
	// An operator backup streams into a slow client and holds the gate; a write commits (it lives
	// only in the WAL); upload rounds fire; the operator's backup finishes. Whatever the Uploader
	// uploads, labelled l, must contain every write committed at or below l.
	{
		st := &c37Storage{s: s, rng: vfNewRng(3798)}
		prov := NewProvider(s, false, false)
		prov.retryInterval = 40 * time.Millisecond
		up := backup.NewUploader(st, prov, 15*time.Millisecond)
		ctx, cancel := context.WithCancel(context.Background())
		done := up.Start(ctx, nil)
		waitLabel := func(idx uint64) bool {
			deadline := time.Now().Add(90 * time.Second)
			for time.Now().Before(deadline) {
				st.mu.Lock()
				id := st.remoteID
				st.mu.Unlock()
				if id == strconv.FormatUint(idx, 10) {
					return true
				}
				time.Sleep(5 * time.Millisecond)
			}
			return false
		}
		_ = write()
		if !waitLabel(s.DBAppliedIndex()) {
			rep.Note("gate schedule: first upload did not happen")
		}
		release := make(chan struct{})
		holding := make(chan struct{})
		opDone := make(chan error, 1)
		go func() {
			opDone <- s.Backup(context.Background(), &command.BackupRequest{Format: command.BackupRequest_BACKUP_REQUEST_FORMAT_BINARY},
				&c37BlockingWriter{holding: holding, release: release})
		}()
		select {
		case <-holding:
		case <-time.After(90 * time.Second):
			t.Fatalf("operator backup never started writing")
		}
		// the gate is held now; this write stays in the WAL until a snapshot can checkpoint it
		if err := write(); err != nil {
			t.Fatalf("write: %v", err)
		}
		final := s.DBAppliedIndex()
		time.Sleep(400 * time.Millisecond) // several upload rounds (and Provide retries) against the held gate
		close(release)
		if err := <-opDone; err != nil {
			rep.Note("operator backup returned %v", err)
		}
		okFinal := waitLabel(final)
		cancel()
		<-done
		st.mu.Lock()
		objs := st.objs
		st.mu.Unlock()
		wmu.Lock()
		idx := map[int64]uint64{}
		for k, v := range idxOf {
			idx[k] = v
		}
		wmu.Unlock()
		replay := map[string]interface{}{"schedule": "operator backup holds the snapshot gate; write; upload rounds; release"}
		for _, o := range objs {
			label, _ := strconv.ParseUint(o.id, 10, 64)
			seqs, err := c37Seqs(dir, o.data, false)
			if err != nil {
				rep.Fail("live:uploaded-object-is-not-a-database", err.Error(), replay)
				continue
			}
			for q, i := range idx {
				if i <= label && !seqs[q] {
					rep.Fail("live:upload-misses-a-change-at-or-below-its-label:gate-held-by-operator-backup",
						fmt.Sprintf("object labelled %d lacks write seq=%d committed at index %d: the write was still in the WAL while an operator backup held the snapshot gate", label, q, i), replay)
					break
				}
			}
		}
		if !okFinal {
			rep.Fail("live:change-never-uploaded:gate-held-by-operator-backup", fmt.Sprintf("applied index %d never uploaded after the gate was released", final), replay)
		}
		rep.Count("gate-held-schedules")
		rep.CountN("gate-held:objects-checked", len(objs))
		rep.Case("gate-held-by-operator-backup", len(objs) >= 2)
	}

	// ---------- 2. live: real Uploader + real Provider ----------
	configs := [][2]bool{{false, false}, {false, true}, {true, false}, {true, true}}
	nCfg := vfScale(2, 4)
	start := int(vfSeed()) % 4
	for ci := 0; ci < nCfg; ci++ {
		cfg := configs[(start+ci)%4]
		vac, comp := cfg[0], cfg[1]
		st := &c37Storage{s: s, rng: vfNewRng(uint64(3701 + ci))}
		st.failPct.Store(35)
		prov := NewProvider(s, vac, comp)
		up := backup.NewUploader(st, prov, 15*time.Millisecond)
		ctx, cancel := context.WithCancel(context.Background())
		done := up.Start(ctx, nil)

		// write load in bursts with idle gaps
		bursts := vfScale(3, 12)
		for b := 0; b < bursts; b++ {
			n := 5 + r.Intn(25)
			for i := 0; i < n; i++ {
				if err := write(); err != nil {
					t.Fatalf("write: %v", err)
				}
				if r.Chance(20) {
					time.Sleep(time.Duration(r.Intn(8)) * time.Millisecond)
				}
			}
			time.Sleep(time.Duration(20+r.Intn(60)) * time.Millisecond)
		}
		// quiesce: storage works from now on; wait for the final upload
		st.failPct.Store(0)
		final := s.DBAppliedIndex()
		deadline := time.Now().Add(90 * time.Second)
		for time.Now().Before(deadline) {
			st.mu.Lock()
			id := st.remoteID
			st.mu.Unlock()
			if id == strconv.FormatUint(final, 10) {
				break
			}
			time.Sleep(10 * time.Millisecond)
		}
		st.mu.Lock()
		lastID := st.remoteID
		st.mu.Unlock()
		replay := map[string]interface{}{"vacuum": vac, "compress": comp, "seed": vfSeed()}
		if lastID != strconv.FormatUint(final, 10) {
			rep.Fail("live:change-never-uploaded", fmt.Sprintf("store applied index %d, last successful upload labelled %q after 90 s of working storage", final, lastID), replay)
		}
		// idle: at least 8 more rounds, no Upload call
		calls0, checks0 := st.calls.Load(), c37ProviderChecks()
		idleDeadline := time.Now().Add(10 * time.Second)
		for c37ProviderChecks() < checks0+8 && time.Now().Before(idleDeadline) {
			time.Sleep(5 * time.Millisecond)
		}
		idleRounds := c37ProviderChecks() - checks0
		if st.calls.Load() != calls0 {
			rep.Fail("live:uploaded-although-unchanged", fmt.Sprintf("%d Upload calls during %d idle rounds", st.calls.Load()-calls0, idleRounds), replay)
		}
		cancel()
		<-done

		// judge every uploaded object
		st.mu.Lock()
		objs := st.objs
		st.mu.Unlock()
		wmu.Lock()
		idx := map[int64]uint64{}
		for k, v := range idxOf {
			idx[k] = v
		}
		wmu.Unlock()
		nOK, nFail, retried := 0, 0, false
		pendingFail := false
		var prevLabel uint64
		for _, o := range objs {
			label, err := strconv.ParseUint(o.id, 10, 64)
			if err != nil {
				rep.Fail("live:label-not-a-number", o.id, replay)
				continue
			}
			if label > o.appliedA {
				rep.Fail("live:label-ahead-of-applied-index", fmt.Sprintf("label %d, applied %d", label, o.appliedA), replay)
			}
			seqs, err := c37Seqs(dir, o.data, comp)
			if err != nil {
				rep.Fail("live:uploaded-object-is-not-a-database", err.Error(), replay)
				continue
			}
			for q, i := range idx {
				if i <= label && !seqs[q] {
					rep.Fail("live:upload-misses-a-change-at-or-below-its-label", fmt.Sprintf("object labelled %d lacks write seq=%d committed at index %d", label, q, i), replay)
					break
				}
			}
			if o.ok {
				nOK++
				if pendingFail {
					retried = true
				}
				pendingFail = false
				if label <= prevLabel {
					rep.Fail("live:uploaded-without-a-new-index", fmt.Sprintf("successful upload labelled %d after %d", label, prevLabel), replay)
				}
				prevLabel = label
			} else {
				nFail++
				pendingFail = true
			}
			rep.Count("live:objects-checked")
		}
		rep.CountN("live:uploads-ok", nOK)
		rep.CountN("live:uploads-failed", nFail)
		rep.CountN("live:idle-rounds-without-upload", int(idleRounds))
		rep.Count(fmt.Sprintf("live:vacuum=%v,compress=%v", vac, comp))
		rep.Case(fmt.Sprintf("live:%v:%v:%d", vac, comp, vfSeed()), nFail > 0 && retried && idleRounds >= 8)
		if ci == 0 {
			rep.Sample(map[string]interface{}{"kind": "live", "vacuum": vac, "compress": comp, "uploads_ok": nOK, "uploads_failed": nFail, "final_label": lastID, "writes": len(idx)})
		}
	}
}

/-
Model of auth/credential_store.go (C19, used by C18).

`CredentialsStore` is two maps keyed by username. They are modelled as
association lists whose *first* matching entry is the live one, so that an
overwrite is a cons. `Load` decodes every array element into a FRESH
`Credential` value, so a key that is absent from an element means the zero
value (empty string / no perms). (Before the `fix:` commit 6515537 one value was
reused across elements and absent keys inherited the previous element's
values; the C19 spec oracle found that on the unchanged tree.)
-/
import RqModel.Model.Util
namespace RqModel.Auth
open RqModel.Util

def AllUsers : String := "*"
def PermAll : String := "all"

/-- one element of the JSON array, a field is `none` when the key is absent -/
structure Cred where
  user  : Option String
  pass  : Option String
  perms : Option (List String)
deriving Repr, DecidableEq

/-- the `cred` variable after decoding an element -/
structure FullCred where
  user  : String
  pass  : String
  perms : List String
deriving Repr, DecidableEq

structure Store where
  store : List (String × String) := []
  perms : List (String × List String) := []
deriving Repr

def lookup {β} (m : List (String × β)) (k : String) : Option β :=
  match m with
  | [] => none
  | (k', v) :: rest => if k' = k then some v else lookup rest k

/-- json.Decoder.Decode into a struct holding `cur` -/
def decodeInto (cur : FullCred) (c : Cred) : FullCred :=
  { user := c.user.getD cur.user, pass := c.pass.getD cur.pass, perms := c.perms.getD cur.perms }

def zeroCred : FullCred := ⟨"", "", []⟩

/-- every element is decoded into a fresh zero value -/
def resolve (cs : List Cred) : List FullCred := cs.map (decodeInto zeroCred)

/-- body of the `for dec.More()` loop -/
def put (s : Store) (c : FullCred) : Store :=
  { store := (c.user, c.pass) :: s.store, perms := (c.user, c.perms) :: s.perms }

def build (s : Store) (cs : List FullCred) : Store := cs.foldl put s

def load (s : Store) (cs : List Cred) : Store := build s (resolve cs)

def check (s : Store) (u p : String) : Bool :=
  match lookup s.store u with
  | some pw => pw == p
  | none => false

def hasPerm (s : Store) (u perm : String) : Bool :=
  (match lookup s.perms u with
   | some ps => ps.contains perm
   | none => false) ||
  (match lookup s.perms AllUsers with
   | some ps => ps.contains perm
   | none => false)

def hasAnyPerm (s : Store) (u : String) (perms : List String) : Bool :=
  perms.any (hasPerm s u)

/-- `(*CredentialsStore).AA` for a non-nil store -/
def aa (s : Store) (u p perm : String) : Bool :=
  if hasAnyPerm s AllUsers [perm, PermAll] then true
  else if u == "" then false
  else if !check s u p then false
  else hasAnyPerm s u [perm, PermAll]

/-! ### line protocol
`cred <user|-> <pass|-> <perm,perm|-|!>`   (`-` absent, `!` present and empty) → `ok`
`reset` → `ok`;  `aa u p perm` / `check u p` / `hasperm u perm` → `true|false`
One `Load` call is sent as a run of `cred` lines terminated by `endload`. -/

structure DState where
  s : Store := {}

def optTok (t : String) : Option (Option String) :=
  if t == "-" then some none else (tokString t).map some

def permsTok (t : String) : Option (Option (List String)) :=
  if t == "-" then some none
  else if t == "!" then some (some [])
  else ((splitComma t).mapM tokString).map some

def step (d : DState) (line : String) : DState × String :=
  match words line with
  | ["reset"] => ({}, "ok")
  | ["endload"] => (d, "ok")
  | ["cred", u, p, ps] =>
    match optTok u, optTok p, permsTok ps with
    | some u, some p, some ps =>
      ({ s := put d.s (decodeInto zeroCred ⟨u, p, ps⟩) }, "ok")
    | _, _, _ => (d, "bad-op")
  | ["aa", u, p, perm] =>
    match tokString u, tokString p, tokString perm with
    | some u, some p, some perm => (d, boolStr (aa d.s u p perm))
    | _, _, _ => (d, "bad-op")
  | ["check", u, p] =>
    match tokString u, tokString p with
    | some u, some p => (d, boolStr (check d.s u p))
    | _, _ => (d, "bad-op")
  | ["hasperm", u, perm] =>
    match tokString u, tokString perm with
    | some u, some perm => (d, boolStr (hasPerm d.s u perm))
    | _, _ => (d, "bad-op")
  | _ => (d, "bad-op")

end RqModel.Auth

namespace RqModel.Auth
def init : DState := {}
end RqModel.Auth
--! driver: auth RqModel.Auth

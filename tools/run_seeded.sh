#!/bin/bash
# tools/run_seeded.sh <seed-dir-name> [tier] [check-id ...]
# Applies seeded/<name>/patch.diff to a scratch worktree of /repo's HEAD, runs the checks
# (default: the property named in meta.json) against it with VERIF_REPO, removes the worktree.
# Prints "DETECTED <id>" / "MISSED <id>" per check. Never touches /repo's working tree.
set -u
cd "$(dirname "$0")/.."
name=$1; tier=${2:-quick}; shift; shift || true
dir=seeded/$name
prop=$(python3 -c "import json;print(json.load(open('$dir/meta.json'))['property'])")
ids=${*:-$prop}
wt=/tmp/seedrun-$name-$$
git -C /repo worktree add -q --detach $wt HEAD || exit 2
if ! git -C $wt apply $PWD/$dir/patch.diff; then echo "PATCH-DOES-NOT-APPLY $name"; git -C /repo worktree remove --force $wt; exit 3; fi
for id in $ids; do
  out=$(VERIF_REPO=$wt ./check $id --tier $tier 2>&1); rc=$?
  if [ $rc -ne 0 ] && echo "$out" | grep -q "^VIOLATION property=$id"; then
    echo "DETECTED $name by $id ($tier): $(echo "$out" | grep '^VIOLATION' | head -1)"
    echo "$out" | grep '^\[check\]' | head -4
  else
    echo "MISSED $name by $id ($tier) rc=$rc"
  fi
done
git -C /repo worktree remove --force $wt

import RqModel.Model.StoreSM
namespace C33
open RqModel.StoreSM
theorem placeholder : (1 : Nat) = 1 := rfl
end C33

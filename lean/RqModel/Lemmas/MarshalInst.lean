/-
A concrete, lawful instance of the codec family of the marshal model (C29): prefix-free
serialisers built from combinators, so that `Codecs.Lawful` is shown to be inhabited and
the C29 round-trip theorems are not vacuous. (Nothing here claims to be protobuf.)
-/
import RqModel.Model.Marshal
namespace RqModel.Marshal

structure Ser (α : Type) where
  enc : α → Bytes
  dec : Bytes → Option (α × Bytes)
  law : ∀ x rest, dec (enc x ++ rest) = some (x, rest)

def natDec : Bytes → Option (Nat × Bytes)
  | [] => none
  | b :: r => if b = 0 then some (0, r) else if b = 1 then (natDec r).map (fun p => (p.1 + 1, p.2)) else none

def natEnc (n : Nat) : Bytes := List.replicate n 1 ++ [0]

theorem natDec_enc : ∀ n rest, natDec (natEnc n ++ rest) = some (n, rest) := by
  intro n
  induction n with
  | zero => intro rest; simp [natEnc, natDec]
  | succ k ih =>
    intro rest
    have : natEnc (k + 1) ++ rest = 1 :: (natEnc k ++ rest) := by simp [natEnc, List.replicate_succ]
    rw [this]
    simp [natDec, ih]

def Ser.nat : Ser Nat := ⟨natEnc, natDec, natDec_enc⟩

def Ser.iso {α β : Type} (s : Ser β) (f : α → β) (g : β → α) (h : ∀ x, g (f x) = x) : Ser α where
  enc x := s.enc (f x)
  dec bs := (s.dec bs).map (fun p => (g p.1, p.2))
  law x rest := by simp [s.law, h]

def Ser.pair {α β : Type} (a : Ser α) (b : Ser β) : Ser (α × β) where
  enc p := a.enc p.1 ++ b.enc p.2
  dec bs := (a.dec bs).bind (fun p => (b.dec p.2).map (fun q => ((p.1, q.1), q.2)))
  law p rest := by simp [List.append_assoc, a.law, b.law]

def listDec {α : Type} (a : Ser α) : Nat → Bytes → Option (List α × Bytes)
  | 0, bs => some ([], bs)
  | n + 1, bs => (a.dec bs).bind (fun p => (listDec a n p.2).map (fun q => (p.1 :: q.1, q.2)))

theorem listDec_enc {α : Type} (a : Ser α) : ∀ (l : List α) rest,
    listDec a l.length ((l.map a.enc).flatten ++ rest) = some (l, rest) := by
  intro l
  induction l with
  | nil => intro rest; simp [listDec]
  | cons x t ih => intro rest; simp [listDec, List.append_assoc, a.law, ih]

def Ser.list {α : Type} (a : Ser α) : Ser (List α) where
  enc l := natEnc l.length ++ (l.map a.enc).flatten
  dec bs := (natDec bs).bind (fun p => listDec a p.1 p.2)
  law l rest := by simp [List.append_assoc, natDec_enc, listDec_enc]

def Ser.bool : Ser Bool := Ser.nat.iso (fun b => if b then 1 else 0) (fun n => n != 0) (by intro b; cases b <;> rfl)
def Ser.u8 : Ser UInt8 := Ser.nat.iso (·.toNat) UInt8.ofNat (by intro x; simp)
def Ser.u64 : Ser UInt64 := Ser.nat.iso (·.toNat) UInt64.ofNat (by intro x; simp)
def Ser.int : Ser Int :=
  (Ser.pair Ser.bool Ser.nat).iso (fun i => (decide (i < 0), i.natAbs))
    (fun p => if p.1 then -(p.2 : Int) else (p.2 : Int))
    (by intro i; by_cases h : i < 0 <;> simp [h] <;> omega)
def Ser.char : Ser Char := Ser.nat.iso (·.toNat) Char.ofNat (by intro c; simp)
def Ser.bytes : Ser Bytes := Ser.list Ser.u8
def Ser.string : Ser String := (Ser.list Ser.char).iso (·.toList) String.ofList (by intro s; simp)
def Ser.option {α : Type} (a : Ser α) : Ser (Option α) :=
  (Ser.list a).iso (fun o => o.toList) (fun l => l.head?) (by intro o; cases o <;> rfl)

def Ser.paramVal : Ser ParamVal :=
  (Ser.pair Ser.nat (Ser.pair Ser.int (Ser.pair Ser.u64 (Ser.pair Ser.bool (Ser.pair Ser.bytes Ser.string))))).iso
    (fun v => match v with
      | .unset => (0, 0, 0, false, [], "")
      | .i x => (1, x, 0, false, [], "")
      | .d x => (2, 0, x, false, [], "")
      | .b x => (3, 0, 0, x, [], "")
      | .y x => (4, 0, 0, false, x, "")
      | .s x => (5, 0, 0, false, [], x))
    (fun p => match p.1 with
      | 0 => .unset
      | 1 => .i p.2.1
      | 2 => .d p.2.2.1
      | 3 => .b p.2.2.2.1
      | 4 => .y p.2.2.2.2.1
      | _ => .s p.2.2.2.2.2)
    (by intro v; cases v <;> rfl)

def Ser.parameter : Ser Parameter :=
  (Ser.pair Ser.paramVal Ser.string).iso (fun p => (p.value, p.name)) (fun q => ⟨q.1, q.2⟩) (by intro p; cases p; rfl)

def Ser.statement : Ser Statement :=
  (Ser.pair Ser.string (Ser.pair (Ser.list Ser.parameter) (Ser.pair Ser.bool (Ser.pair Ser.bool Ser.bool)))).iso
    (fun s => (s.sql, s.parameters, s.forceQuery, s.forceStall, s.sqlExplain))
    (fun q => ⟨q.1, q.2.1, q.2.2.1, q.2.2.2.1, q.2.2.2.2⟩) (by intro s; cases s; rfl)

def Ser.request : Ser Request :=
  (Ser.pair Ser.bool (Ser.pair (Ser.list Ser.statement) (Ser.pair Ser.int (Ser.pair Ser.bool Ser.bool)))).iso
    (fun r => (r.transaction, r.statements, r.dbTimeout, r.rollbackOnError, r.qualifyColumns))
    (fun q => ⟨q.1, q.2.1, q.2.2.1, q.2.2.2.1, q.2.2.2.2⟩) (by intro r; cases r; rfl)

def Ser.executeRequest : Ser ExecuteRequest :=
  (Ser.pair (Ser.option Ser.request) Ser.bool).iso (fun e => (e.request, e.timings)) (fun q => ⟨q.1, q.2⟩)
    (by intro e; cases e; rfl)

def Ser.queryRequest : Ser QueryRequest :=
  (Ser.pair (Ser.option Ser.request) (Ser.pair Ser.bool (Ser.pair Ser.nat (Ser.pair Ser.int (Ser.pair Ser.bool Ser.int))))).iso
    (fun e => (e.request, e.timings, e.level, e.freshness, e.freshnessStrict, e.linearizableTimeout))
    (fun q => ⟨q.1, q.2.1, q.2.2.1, q.2.2.2.1, q.2.2.2.2.1, q.2.2.2.2.2⟩) (by intro e; cases e; rfl)

def Ser.executeQueryRequest : Ser ExecuteQueryRequest :=
  (Ser.pair (Ser.option Ser.request) (Ser.pair Ser.bool (Ser.pair Ser.nat (Ser.pair Ser.int (Ser.pair Ser.bool Ser.int))))).iso
    (fun e => (e.request, e.timings, e.level, e.freshness, e.freshnessStrict, e.linearizableTimeout))
    (fun q => ⟨q.1, q.2.1, q.2.2.1, q.2.2.2.1, q.2.2.2.2.1, q.2.2.2.2.2⟩) (by intro e; cases e; rfl)

def Ser.loadRequest : Ser LoadRequest := Ser.bytes.iso (·.data) (fun b => ⟨b⟩) (by intro l; cases l; rfl)

def Ser.loadChunkRequest : Ser LoadChunkRequest :=
  (Ser.pair Ser.string (Ser.pair Ser.int (Ser.pair Ser.bool (Ser.pair Ser.bytes Ser.bool)))).iso
    (fun c => (c.streamId, c.sequenceNum, c.isLast, c.data, c.abort))
    (fun q => ⟨q.1, q.2.1, q.2.2.1, q.2.2.2.1, q.2.2.2.2⟩) (by intro c; cases c; rfl)

def Ser.noop : Ser Noop := Ser.string.iso (·.id) (fun s => ⟨s⟩) (by intro n; cases n; rfl)

def Ser.command : Ser Command :=
  (Ser.pair Ser.nat (Ser.pair Ser.bytes Ser.bool)).iso (fun c => (c.type, c.sub, c.compressed))
    (fun q => ⟨q.1, q.2.1, q.2.2⟩) (by intro c; cases c; rfl)

/-- a message codec from a serialiser: the whole input must be consumed -/
def Ser.toPb {α : Type} (s : Ser α) : Pb α where
  ser := s.enc
  de bs := (s.dec bs).bind (fun p => if p.2 = [] then some p.1 else none)

theorem Ser.toPb_lawful {α : Type} (s : Ser α) : s.toPb.Lawful := by
  intro x
  have := s.law x []
  simp only [List.append_nil] at this
  simp [Ser.toPb, this]

/-- the concrete codec family: prefix-free serialisers, "gzip" = identity -/
def concreteCodecs : Codecs where
  gz := ⟨id, some⟩
  cmd := Ser.command.toPb
  query := Ser.queryRequest.toPb
  execute := Ser.executeRequest.toPb
  executeQuery := Ser.executeQueryRequest.toPb
  load := Ser.loadRequest.toPb
  loadChunk := Ser.loadChunkRequest.toPb
  noop := Ser.noop.toPb

theorem concreteCodecs_lawful : concreteCodecs.Lawful where
  gz := fun _ => rfl
  cmd := Ser.toPb_lawful _
  query := Ser.toPb_lawful _
  execute := Ser.toPb_lawful _
  executeQuery := Ser.toPb_lawful _
  load := Ser.toPb_lawful _
  loadChunk := Ser.toPb_lawful _
  noop := Ser.toPb_lawful _

end RqModel.Marshal

/-
C28  Chunked loads reassemble the original bytes.

Model: RqModel/Model/Chunk.lean (tied to command/chunking/{chunker,dechunker}.go by
the C28 correspondence run). gzip is the parameter `G : Codec` with the assumed
round-trip law `G.Lawful`.
-/
import RqModel.Model.Chunk
namespace C28
open RqModel.Chunk

/-! ### the read loop -/

theorem fill_spec (cs : Nat) : ∀ (tr : List Read) (acc : Bytes), NoFail tr →
    ∃ acc' fin rest, fill cs tr acc = .done acc' fin rest ∧
      (fin = true → acc' = acc ++ content tr ∧ acc'.length < cs) ∧
      (fin = false → acc' ++ content rest = acc ++ content tr ∧ cs ≤ acc'.length ∧ NoFail rest) ∧
      (acc.length < cs → fin = true ∨ rest.length < tr.length) ∧
      rest.length ≤ tr.length := by
  intro tr
  induction tr with
  | nil =>
    intro acc _
    by_cases h : cs ≤ acc.length
    · exact ⟨acc, false, [], by simp [fill, h], by simp, by simp [h, NoFail, noFail], by omega, by simp⟩
    · exact ⟨acc, true, [], by simp [fill, h], by simp [content]; omega, by simp, by simp, by simp⟩
  | cons r rest ih =>
    intro acc hnf
    by_cases h : cs ≤ acc.length
    · exact ⟨acc, false, r :: rest, by simp [fill, h], by simp, by simp [h, hnf], by omega, by simp⟩
    · by_cases hb : r.bs = []
      · cases hst : r.st with
        | ok =>
          have hnf' : NoFail rest := by simpa [NoFail, noFail, hb, hst] using hnf
          obtain ⟨acc', fin, rest', h1, h2, h3, h4, h5⟩ := ih acc hnf'
          refine ⟨acc', fin, rest', by simp [fill, h, hb, hst, h1], ?_, ?_, ?_, ?_⟩
          · intro hf; simpa [content, hb, hst] using h2 hf
          · intro hf; simpa [content, hb, hst] using h3 hf
          · intro _; right; simp; omega
          · simp; omega
        | eof =>
          refine ⟨acc, true, rest, by simp [fill, h, hb, hst], ?_, by simp, by simp, by simp⟩
          intro _; simp [content, hb, hst]; omega
        | fail => simp [NoFail, noFail, hb, hst] at hnf
      · have hnf' : NoFail rest := by simpa [NoFail, noFail, hb] using hnf
        obtain ⟨acc', fin, rest', h1, h2, h3, h4, h5⟩ := ih (acc ++ r.bs) hnf'
        refine ⟨acc', fin, rest', by simp [fill, h, hb, h1], ?_, ?_, ?_, ?_⟩
        · intro hf; simpa [content, hb, List.append_assoc] using h2 hf
        · intro hf; simpa [content, hb, List.append_assoc] using h3 hf
        · intro _; right; simp; omega
        · simp; omega

/-! ### shape of a chunk sequence -/

/-- every chunk but the final one has `IsLast = false`; the final one has `IsLast = true` -/
def WellTerminated : List Chunk → Prop
  | [] => True
  | [c] => c.last = true
  | c :: c' :: rest => c.last = false ∧ WellTerminated (c' :: rest)

/-- sequence numbers count up from `n + 1`, all chunks carry stream id `sid`, none is an abort -/
def Numbered (sid : String) : Nat → List Chunk → Prop
  | _, [] => True
  | n, c :: rest => c.seq = n + 1 ∧ c.sid = sid ∧ c.abort = false ∧ Numbered sid (n + 1) rest

theorem wellTerminated_cons {c : Chunk} {rest : List Chunk}
    (h1 : rest = [] → c.last = true) (h2 : rest ≠ [] → c.last = false)
    (h3 : WellTerminated rest) : WellTerminated (c :: rest) := by
  cases rest with
  | nil => exact h1 rfl
  | cons c' r => exact ⟨h2 (by simp), h3⟩

/-! ### the whole run -/

/-- Invariant of `runAll` against a receiving dechunker that is in step with the chunker. -/
theorem run_inv (G : Codec) (hG : G.Lawful) (cs : Nat) (hcs : 1 ≤ cs) (sid : String) :
    ∀ (fuel : Nat) (s : CState) (d : Dechunker),
      s.finished = false → NoFail s.tr → s.tr.length + 2 ≤ fuel →
      d.seq = s.seq → (d.sid = "" ∨ d.sid = sid) →
      (runAll G cs sid fuel s).2 = true ∧
      (feed G d (runAll G cs sid fuel s).1).1.file = d.file ++ content s.tr ∧
      (feed G d (runAll G cs sid fuel s).1).2 = (runAll G cs sid fuel s).1.map (fun c => WRes.ok c.last) ∧
      WellTerminated (runAll G cs sid fuel s).1 ∧
      Numbered sid s.seq (runAll G cs sid fuel s).1 ∧
      ((runAll G cs sid fuel s).1 = [] ↔ (content s.tr = [] ∧ s.seq = 0)) := by
  intro fuel
  induction fuel with
  | zero => intro s d _ _ h; omega
  | succ fuel ih =>
    intro s d hfin hnf hfuel hseq hsid
    obtain ⟨acc, fin, rest, hfill, hT, hF, hprog, _⟩ := fill_spec cs s.tr [] hnf
    have hprog' := hprog (by simp; omega)
    have hsidok : ¬ (d.sid ≠ "" ∧ d.sid ≠ sid) := by
      rcases hsid with h | h <;> simp [h]
    -- a finished chunker returns io.EOF at once
    have hdone : ∀ (s' : CState), s'.finished = true → runAll G cs sid (fuel + 1) s' = ([], true) := by
      intro s' h; simp [runAll, next, h]
    by_cases hacc : acc = []
    · -- nothing read: the loop can only have ended on EOF
      subst hacc
      have hfin' : fin = true := by
        cases fin with
        | true => rfl
        | false => have := (hF rfl).2.1; simp at this; omega
      subst hfin'
      have hc : content s.tr = [] := by simpa using (hT rfl).1.symm
      by_cases hs0 : s.seq = 0
      · have : runAll G cs sid (fuel + 1) s = ([], true) := by
          simp [runAll, next, hfin, hfill, hs0]
        simp [this, feed, hc, hs0, WellTerminated, Numbered]
      · have hfuel' : 1 ≤ fuel := by omega
        obtain ⟨f', rfl⟩ : ∃ f', fuel = f' + 1 := ⟨fuel - 1, by omega⟩
        have : runAll G cs sid (f' + 1 + 1) s =
            ([{ sid := sid, seq := s.seq + 1, last := true, data := none }], true) := by
          simp [runAll, next, hfin, hfill, hs0]
        simp [this, feed, writeChunk, hsidok, hseq, hc, hs0, WellTerminated, Numbered]
    · -- a data chunk
      let s' : CState := { tr := rest, seq := s.seq + 1, finished := fin }
      let c : Chunk := { sid := sid, seq := s.seq + 1, last := decide (acc.length < cs), data := some (G.enc acc) }
      have hnext : next G cs sid s = (.chunk c, s') := by
        simp [next, hfin, hfill, hacc, c, s']
      have hrun : runAll G cs sid (fuel + 1) s =
          (c :: (runAll G cs sid fuel s').1, (runAll G cs sid fuel s').2) := by
        simp [runAll, hnext]
      let d' : Dechunker := { sid := sid, seq := s.seq + 1, file := d.file ++ acc }
      have hwrite : writeChunk G d c = (d', .ok c.last) := by
        simp [writeChunk, hsidok, hseq, c, hG acc, d']
      cases hfb : fin with
      | true =>
        subst hfb
        have hrest : runAll G cs sid fuel s' = ([], true) := by
          obtain ⟨f', rfl⟩ : ∃ f', fuel = f' + 1 := ⟨fuel - 1, by omega⟩
          exact hdone s' rfl
        obtain ⟨hacc', hlt⟩ := hT rfl
        have hcl : c.last = true := by simp [c, hlt]
        have hcne : content s.tr ≠ [] := by
          intro h; apply hacc; simpa [h] using hacc'
        rw [hrun, hrest]
        simp only [feed, hwrite, List.map_cons, List.map_nil]
        refine ⟨by simp, ?_, by simp, ?_, ?_, ?_⟩
        · simp [d', hacc']
        · simpa [WellTerminated] using hcl
        · simp [Numbered, c]
        · simp [hcne]
      | false =>
        subst hfb
        obtain ⟨hcont, hge, hnf'⟩ := hF rfl
        have hlen : rest.length < s.tr.length := by
          rcases hprog' with h | h
          · cases h
          · exact h
        have hI := ih s' d' rfl hnf' (by simp [s']; omega) rfl (Or.inr rfl)
        obtain ⟨i1, i2, i3, i4, i5, i6⟩ := hI
        have hcl : c.last = false := by simp [c]; omega
        have hne : (runAll G cs sid fuel s').1 ≠ [] := by
          intro h; have := (i6.1 h).2; simp [s'] at this
        have hcne : content s.tr ≠ [] := by
          intro h
          have : acc ++ content rest = [] := by simpa [h] using hcont
          exact hacc (List.append_eq_nil_iff.1 this).1
        rw [hrun]
        simp only [feed, hwrite, List.map_cons]
        refine ⟨i1, ?_, ?_, ?_, ?_, ?_⟩
        · rw [i2]; simp [d', s', List.append_assoc]; simpa using hcont
        · rw [i3]
        · exact wellTerminated_cons (fun h => absurd h hne) (fun _ => hcl) i4
        · exact ⟨rfl, rfl, rfl, i5⟩
        · simp [hcne]

/-! ### property theorems -/

/-- **reassemble_exact.** For every gzip satisfying the round-trip law, every chunk
size ≥ 1, every stream id and every reader behaviour (byte string + read pattern)
without a read error: `Next` runs to `io.EOF`, a fresh dechunker accepts every chunk,
and the reassembled file is exactly the stream's bytes. -/
theorem reassemble_exact (G : Codec) (hG : G.Lawful) (cs : Nat) (hcs : 1 ≤ cs) (sid : String)
    (tr : List Read) (hnf : NoFail tr) :
    (chunkAll G cs sid tr).2 = true ∧
    (feed G {} (chunkAll G cs sid tr).1).1.file = content tr ∧
    (feed G {} (chunkAll G cs sid tr).1).2 = (chunkAll G cs sid tr).1.map (fun c => WRes.ok c.last) := by
  have h := run_inv G hG cs hcs sid (tr.length + 2) { tr := tr } {} rfl hnf (by simp) rfl (Or.inl rfl)
  unfold chunkAll
  exact ⟨h.1, by simpa using h.2.1, h.2.2.1⟩

/-- **exactly_one_last_and_it_is_final.** A non-empty stream produces a chunk sequence
whose final chunk, and only that one, has `IsLast`; an empty stream produces no
chunk at all. Sequence numbers are 1,2,3,… and every chunk carries the stream id. -/
theorem exactly_one_last_and_it_is_final (G : Codec) (hG : G.Lawful) (cs : Nat) (hcs : 1 ≤ cs)
    (sid : String) (tr : List Read) (hnf : NoFail tr) :
    WellTerminated (chunkAll G cs sid tr).1 ∧
    Numbered sid 0 (chunkAll G cs sid tr).1 ∧
    ((chunkAll G cs sid tr).1 = [] ↔ content tr = []) := by
  have h := run_inv G hG cs hcs sid (tr.length + 2) { tr := tr } {} rfl hnf (by simp) rfl (Or.inl rfl)
  unfold chunkAll
  exact ⟨h.2.2.2.1, h.2.2.2.2.1, by simpa using h.2.2.2.2.2⟩

/-- the data is independent of the read pattern: two readers delivering the same bytes
reassemble to the same file, whatever their short reads and EOF placement -/
theorem read_pattern_irrelevant (G : Codec) (hG : G.Lawful) (cs₁ cs₂ : Nat) (h₁ : 1 ≤ cs₁) (h₂ : 1 ≤ cs₂)
    (sid₁ sid₂ : String) (tr₁ tr₂ : List Read) (hn₁ : NoFail tr₁) (hn₂ : NoFail tr₂)
    (hc : content tr₁ = content tr₂) :
    (feed G {} (chunkAll G cs₁ sid₁ tr₁).1).1.file = (feed G {} (chunkAll G cs₂ sid₂ tr₂).1).1.file := by
  rw [(reassemble_exact G hG cs₁ h₁ sid₁ tr₁ hn₁).2.1, (reassemble_exact G hG cs₂ h₂ sid₂ tr₂ hn₂).2.1, hc]

/-- **foreign_or_out_of_order_rejected** (1): a chunk of another stream is refused and
changes nothing. -/
theorem foreign_rejected (G : Codec) (d : Dechunker) (c : Chunk)
    (h1 : d.sid ≠ "") (h2 : c.sid ≠ d.sid) :
    writeChunk G d c = (d, .errStream) := by
  have : d.sid ≠ c.sid := fun h => h2 h.symm
  simp [writeChunk, h1, this]

/-- **foreign_or_out_of_order_rejected** (2): a chunk whose sequence number is not the
next one (duplicate, skipped, replayed) is refused; file and sequence number are unchanged. -/
theorem out_of_order_rejected (G : Codec) (d : Dechunker) (c : Chunk) (h : c.seq ≠ d.seq + 1) :
    ((writeChunk G d c).2 = .errStream ∨ (writeChunk G d c).2 = .errOrder) ∧
    (writeChunk G d c).1.file = d.file ∧ (writeChunk G d c).1.seq = d.seq := by
  unfold writeChunk
  by_cases hs : d.sid ≠ "" ∧ d.sid ≠ c.sid
  · simp [hs]
  · simp [hs, h]

/-- a chunk is accepted only if it is the next one of the dechunker's stream, and then
exactly its decoded bytes are appended -/
theorem accepted_iff (G : Codec) (d : Dechunker) (c : Chunk) (l : Bool) :
    (writeChunk G d c).2 = .ok l →
      (d.sid = "" ∨ d.sid = c.sid) ∧ c.seq = d.seq + 1 ∧ l = c.last ∧
      (writeChunk G d c).1.seq = d.seq + 1 ∧ (writeChunk G d c).1.sid = c.sid ∧
      (writeChunk G d c).1.file = d.file ++ (match c.data with | none => [] | some e => (G.dec e).1) := by
  unfold writeChunk
  by_cases hs : d.sid ≠ "" ∧ d.sid ≠ c.sid
  · simp [hs]
  · by_cases ho : c.seq ≠ d.seq + 1
    · simp [hs, ho]
    · have ho' : c.seq = d.seq + 1 := by simpa using ho
      have hs' : d.sid = "" ∨ d.sid = c.sid := by
        by_cases h : d.sid = ""
        · exact Or.inl h
        · by_cases h' : d.sid = c.sid
          · exact Or.inr h'
          · exact absurd ⟨h, h'⟩ hs
      cases hd : c.data with
      | none => simp [hs, ho', hs']; intro h; exact h.symm
      | some e =>
        by_cases hg : (G.dec e).2 = true
        · simp [hs, ho', hg, hs']; intro h; exact h.symm
        · simp [hs, ho', hg]

/-! ### arbitrary chunk sequences

`feed_taken` is the general statement behind "foreign or out-of-order chunks are rejected":
for ANY list of chunks (reordered, duplicated, foreign, corrupted) fed to ANY dechunker, the
chunks that get past the checks (`taken`) have consecutive sequence numbers continuing the
dechunker's, all carry its stream id, and the file is the old file followed by exactly
their decoded bytes, in order. -/


def passed : WRes → Bool
  | .ok _ => true
  | .errCodec => true
  | _ => false

def decoded (G : Codec) (c : Chunk) : Bytes :=
  match c.data with
  | none => []
  | some e => (G.dec e).1

/-- chunks that passed the stream-id and sequence checks, in arrival order -/
def taken (G : Codec) : Dechunker → List Chunk → List Chunk
  | _, [] => []
  | d, c :: rest =>
    let r := writeChunk G d c
    if passed r.2 then c :: taken G r.1 rest else taken G r.1 rest

theorem writeChunk_cases (G : Codec) (d : Dechunker) (c : Chunk) :
    (passed (writeChunk G d c).2 = true ∧ (d.sid = "" ∨ d.sid = c.sid) ∧ c.seq = d.seq + 1 ∧
      (writeChunk G d c).1 = { sid := c.sid, seq := d.seq + 1, file := d.file ++ decoded G c }) ∨
    (passed (writeChunk G d c).2 = false ∧ (writeChunk G d c).1.seq = d.seq ∧ (writeChunk G d c).1.file = d.file ∧
      ((writeChunk G d c).1.sid = d.sid ∨ (d.sid = "" ∧ (writeChunk G d c).1.sid = c.sid))) := by
  unfold writeChunk
  by_cases hs : d.sid ≠ "" ∧ d.sid ≠ c.sid
  · right; simp [hs, passed]
  · have hs' : d.sid = "" ∨ d.sid = c.sid := by
      by_cases h : d.sid = ""
      · exact Or.inl h
      · by_cases h' : d.sid = c.sid
        · exact Or.inr h'
        · exact absurd ⟨h, h'⟩ hs
    by_cases ho : c.seq ≠ d.seq + 1
    · right
      simp only [hs, if_false, if_pos ho, passed]
      refine ⟨trivial, trivial, trivial, ?_⟩
      rcases hs' with h | h
      · exact Or.inr ⟨h, trivial⟩
      · exact Or.inl h.symm
    · left
      have ho' : c.seq = d.seq + 1 := by simpa using ho
      cases hd : c.data with
      | none => simp [hs, ho', passed, decoded, hd, hs']
      | some e =>
        by_cases hg : (G.dec e).2 = true <;> simp [hs, ho', hg, passed, decoded, hd, hs']

theorem feed_taken (G : Codec) : ∀ (cs : List Chunk) (d : Dechunker),
    (taken G d cs).map (·.seq) = List.range' (d.seq + 1) (taken G d cs).length ∧
    (feed G d cs).1.file = d.file ++ ((taken G d cs).map (decoded G)).flatten ∧
    (feed G d cs).1.seq = d.seq + (taken G d cs).length ∧
    (d.sid ≠ "" → ∀ c ∈ taken G d cs, c.sid = d.sid) := by
  intro cs
  induction cs with
  | nil => intro d; simp [taken, feed]
  | cons c rest ih =>
    intro d
    obtain ⟨i1, i2, i3, i4⟩ := ih (writeChunk G d c).1
    rcases writeChunk_cases G d c with ⟨hp, hsid, hseq, hst⟩ | ⟨hp, hq, hf, hsid⟩
    · simp only [taken, hp, if_true, feed, List.map_cons, List.length_cons, List.flatten_cons]
      rw [hst] at i1 i2 i3 i4 ⊢
      simp only at i1 i2 i3 i4
      refine ⟨?_, ?_, ?_, ?_⟩
      · rw [i1, hseq, List.range'_succ]
      · rw [i2]; simp [List.append_assoc]
      · rw [i3]; omega
      · intro hne x hx
        rcases List.mem_cons.1 hx with rfl | hx'
        · rcases hsid with h | h
          · exact absurd h hne
          · exact h.symm
        · have hcs : c.sid = d.sid := by
            rcases hsid with h | h
            · exact absurd h hne
            · exact h.symm
          have := i4 (by rw [hcs]; exact hne) x hx'
          rw [this, hcs]
    · have hp' : passed (writeChunk G d c).2 = false := hp
      simp only [taken, hp', Bool.false_eq_true, if_false, feed]
      rw [hq] at i1 i3
      rw [hf] at i2
      refine ⟨i1, i2, i3, ?_⟩
      intro hne x hx
      rcases hsid with h | ⟨h, _⟩
      · have := i4 (by rw [h]; exact hne) x hx
        rw [this, h]
      · exact absurd h hne

theorem lookup_erase_self (l : List (String × Dechunker)) (k : String) : lookup (erase l k) k = none := by
  induction l with
  | nil => rfl
  | cons p l ih =>
    by_cases hp : p.1 = k
    · simpa [erase, List.filter_cons, hp] using ih
    · have : lookup (p :: erase l k) k = none := by simpa [lookup, hp] using ih
      simpa [erase, List.filter_cons, hp] using this

theorem lookup_erase_other (l : List (String × Dechunker)) (k k' : String) (hk : k' ≠ k) :
    lookup (erase l k) k' = lookup l k' := by
  induction l with
  | nil => rfl
  | cons p l ih =>
    by_cases hp : p.1 = k
    · have hp' : p.1 ≠ k' := by rw [hp]; exact fun h => hk h.symm
      have : lookup (erase l k) k' = lookup (p :: l) k' := by simpa [lookup, hp'] using ih
      simpa [erase, List.filter_cons, hp] using this
    · have : lookup (p :: erase l k) k' = lookup (p :: l) k' := by
        by_cases hp' : p.1 = k'
        · simp [lookup, hp']
        · simpa [lookup, hp'] using ih
      simpa [erase, List.filter_cons, hp] using this

/-- **abort_leaves_nothing.** After the abort chunk of a stream is handled, the manager
holds no dechunker (hence no temp file) for that stream, whatever was received before;
other streams are untouched. -/
theorem abort_leaves_nothing (G : Codec) (m : Mgr) (c : Chunk) (h : c.abort = true) :
    lookup (handle G m c).1.live c.sid = none ∧
    (∀ k, k ≠ c.sid → lookup (handle G m c).1.live k = lookup m.live k) := by
  simp only [handle, h, if_true]
  exact ⟨lookup_erase_self _ _, fun k hk => lookup_erase_other _ _ _ hk⟩

/-- the chunk `Chunker.Abort` produces, handled by the receiver at any point of the stream,
removes the stream's dechunker, and with it its temp file: the number of temp files
(`Mgr.files`) does not grow and no entry for the stream is left -/
theorem chunker_abort_clears (G : Codec) (m : Mgr) (sid : String) :
    lookup (handle G m (abortChunk sid)).1.live sid = none ∧ (handle G m (abortChunk sid)).1.files ≤ m.files := by
  refine ⟨(abort_leaves_nothing G m (abortChunk sid) rfl).1, ?_⟩
  simp only [handle, abortChunk, if_true, Mgr.files, erase]
  exact List.length_filter_le _ _

/-- a completed stream (its last chunk accepted) leaves nothing behind either -/
theorem last_leaves_nothing (G : Codec) (m : Mgr) (c : Chunk) (f : Bytes)
    (h : (handle G m c).2 = .installed f) :
    lookup (handle G m c).1.live c.sid = none := by
  unfold handle at h ⊢
  by_cases ha : c.abort = true
  · simp [ha] at h
  · simp only [ha] at h ⊢
    generalize hw : writeChunk G ((lookup m.live c.sid).getD {}) c = w at h ⊢
    obtain ⟨d', r⟩ := w
    cases r with
    | ok l => cases l <;> simp_all [lookup_erase_self]
    | errStream => simp at h
    | errOrder => simp at h
    | errCodec => simp at h

/-! ### DechunkerManager.Close -/

/-- every entry's dechunker carries the entry's key as its stream id -/
def KeysMatch (m : Mgr) : Prop := ∀ p ∈ m.live, p.2.sid = p.1

theorem writeChunk_sid (G : Codec) (d : Dechunker) (c : Chunk) (h : d.sid = "" ∨ d.sid = c.sid) :
    (writeChunk G d c).1.sid = c.sid := by
  unfold writeChunk
  have hs : ¬ (d.sid ≠ "" ∧ d.sid ≠ c.sid) := by rcases h with h | h <;> simp [h]
  simp only [hs, if_false]
  split
  · rfl
  · split
    · rfl
    · split <;> rfl

theorem mem_erase {l : List (String × Dechunker)} {k : String} {p : String × Dechunker} (h : p ∈ erase l k) :
    p ∈ l := (List.mem_filter.1 h).1

/-- the command processor keeps keys and stream ids in step -/
theorem handle_keysMatch (G : Codec) (m : Mgr) (c : Chunk) (h : KeysMatch m) : KeysMatch (handle G m c).1 := by
  have hl : ∀ d, lookup m.live c.sid = some d → d.sid = c.sid := by
    intro d hd
    have : ∀ (l : List (String × Dechunker)), (∀ p ∈ l, p.2.sid = p.1) → lookup l c.sid = some d → d.sid = c.sid := by
      intro l
      induction l with
      | nil => intro _ h; simp [lookup] at h
      | cons p t ih =>
        intro hp hlk
        obtain ⟨k, v⟩ := p
        simp only [lookup] at hlk
        by_cases e : k = c.sid
        · simp [e] at hlk; subst hlk; have := hp (k, v) (by simp); simpa [e] using this
        · simp [e] at hlk; exact ih (fun q hq => hp q (by simp [hq])) hlk
    exact this m.live h hd
  have hd0 : ((lookup m.live c.sid).getD {}).sid = "" ∨ ((lookup m.live c.sid).getD {}).sid = c.sid := by
    cases hlk : lookup m.live c.sid with
    | none => left; rfl
    | some d => right; simpa using hl d hlk
  have hw := writeChunk_sid G ((lookup m.live c.sid).getD {}) c hd0
  unfold handle
  simp only
  split
  · intro p hp; exact h p (mem_erase hp)
  · generalize hwc : writeChunk G ((lookup m.live c.sid).getD {}) c = w at hw
    obtain ⟨d', r⟩ := w
    have key : ∀ q ∈ put m.live c.sid d', q.2.sid = q.1 := by
      intro q hq
      simp only [put, List.mem_cons] at hq
      rcases hq with rfl | hq
      · exact hw
      · exact h q (mem_erase hq)
    cases r with
    | ok l => cases l with
      | true => intro p hp; exact h p (mem_erase hp)
      | false => exact key
    | errStream => exact key
    | errOrder => exact key
    | errCodec => exact key

/-- **manager_close.** For a manager driven by the command processor, `Close` empties the map; the
temp files of the streams that were neither completed nor aborted stay on disk (they are closed,
not removed). -/
theorem manager_close (m : Mgr) (h : KeysMatch m) : m.closeAll.1.live = [] ∧ m.closeAll.2 = m.files := by
  refine ⟨?_, rfl⟩
  simp only [Mgr.closeAll]
  rw [List.filter_eq_nil_iff]
  intro p hp
  have : m.live.any (fun q => q.2.sid == p.1) = true :=
    List.any_eq_true.2 ⟨p, hp, by simp [h p hp]⟩
  simp [this]

/-! ### non-vacuity: concrete traces (short reads, a zero-length read, EOF delivered with
the final bytes exactly at a chunk boundary) under the driver's codec -/

theorem drvCodec_lawful : drvCodec.Lawful := by intro x; rfl

example :
    let tr : List Read := [⟨[1, 2], .ok⟩, ⟨[], .ok⟩, ⟨[3], .ok⟩, ⟨[4, 5, 6], .eof⟩]
    NoFail tr ∧ content tr = [1, 2, 3, 4, 5, 6] ∧
    ((chunkAll drvCodec 3 "s" tr).1.map (fun c => (c.seq, c.last))) = [(1, false), (2, false), (3, true)] ∧
    (feed drvCodec {} (chunkAll drvCodec 3 "s" tr).1).1.file = [1, 2, 3, 4, 5, 6] := by decide

example : (chunkAll drvCodec 4 "s" []).1 = [] ∧ content [] = [] := by decide

example :
    let d : Dechunker := { sid := "a", seq := 2, file := [9] }
    writeChunk drvCodec d { sid := "b", seq := 3, last := false, data := none } = (d, .errStream) ∧
    (writeChunk drvCodec d { sid := "a", seq := 2, last := false, data := some [1, 7] }).2 = .errOrder ∧
    (writeChunk drvCodec d { sid := "a", seq := 3, last := true, data := some [1, 7] }) =
      ({ sid := "a", seq := 3, file := [9, 7] }, .ok true) := by decide

end C28

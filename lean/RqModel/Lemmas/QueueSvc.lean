/-
Invariant of the queued-write consumer (RqModel/Model/QueueSvc.lean) on top of
the queue invariant (RqModel/Lemmas/Queue.lean). Used by Props/C23.
-/
import RqModel.Model.QueueSvc
import RqModel.Lemmas.Queue
namespace RqModel.QueueSvc
open RqModel.Queue

/-- what the consumer side of the queue has seen and done -/
def hist (s : S) : List Req × List Nat × List Nat := (s.emitted, s.closedReqs, s.closedFlush)

theorem writeFn_hist (s : S) : hist (writeFn s) = hist s := by
  unfold writeFn; split <;> rfl

theorem recv_hist (s s' : S) (h : recv s = some s') : hist s' = hist s := by
  unfold recv at h
  split at h
  · cases h
  · split at h
    · cases h
    · cases h; rw [writeFn_hist]; rfl
    · dsimp only at h
      split at h
      · cases h; rw [writeFn_hist]; rfl
      · cases h; rfl

theorem enqueue_hist (s s1 s' : S) (h1 : hist s1 = hist s) (h : enqueue s s1 = some s') : hist s' = hist s := by
  unfold enqueue at h
  split at h
  · cases h; exact h1
  · split at h
    · rw [recv_hist _ _ h]; exact h1
    · cases h

theorem env_hist (s : S) (st : Queue.Step) (he : envStep st = true) : hist (Queue.next s st) = hist s := by
  unfold Queue.next
  cases hs : Queue.step s st with
  | none => rfl
  | some s' =>
    simp only [Option.getD_some]
    cases st with
    | write o f =>
      simp only [Queue.step, write] at hs
      split at hs
      · cases hs
      · unfold enq at hs; exact enqueue_hist _ _ _ (by rfl) hs
    | writeLate o f => simp only [Queue.step, enq] at hs; exact enqueue_hist _ _ _ (by rfl) hs
    | flush => simp only [Queue.step, flush] at hs; exact enqueue_hist _ _ _ (by rfl) hs
    | recv => exact recv_hist _ _ hs
    | fire =>
      simp only [Queue.step, fire] at hs
      split at hs
      · cases hs
      · cases hs; rw [writeFn_hist]; rfl
    | send =>
      simp only [Queue.step, send] at hs
      split at hs
      · cases hs; rfl
      · cases hs
    | consume => simp [envStep] at he
    | closeReq i => simp [envStep] at he
    | close => simp only [Queue.step, close] at hs; cases hs; rfl
    | stop =>
      simp only [Queue.step, stop] at hs
      split at hs
      · cases hs; rfl
      · cases hs

structure SInv (v : Svc) : Prop where
  reach : Reachable v.q
  emitted : v.q.emitted = v.done ++ optL v.cur
  /-- exactly-once bookkeeping, as long as no Execute error hid a committed batch -/
  applied : v.lostAcks = 0 → v.applied = (v.done.filter (fun r => !r.objs.isEmpty)).map (·.objs)
  /-- in any case every processed batch is in the applied list, in order (possibly among duplicates) -/
  appliedSub : ((v.done.filter (fun r => !r.objs.isEmpty)).map (·.objs)).Sublist v.applied
  /-- and nothing is applied that is not the statement list of a request the consumer received -/
  appliedFrom : ∀ a ∈ v.applied, ∃ r ∈ v.q.emitted, a = r.objs
  closedReqs : ∀ i ∈ v.q.closedReqs, i < v.done.length
  curStmts : ∀ r, v.cur = some r → r.objs ≠ []

theorem mk_inv (m : Nat) (b t : Int) : SInv (mk m b t) :=
  ⟨⟨m, b, t, 0, [], rfl⟩, rfl, fun _ => rfl, by simp [mk], by simp [mk], by simp [mk, Queue.mk], by simp [mk]⟩

/-- `finish` after the consumer has received `r` as the newest request -/
theorem finish_inv (v : Svc) (r : Req) (hr : Reachable v.q) (he : v.q.emitted = v.done ++ [r])
    (ha : v.lostAcks = 0 → v.applied = ((v.done ++ [r]).filter (fun r => !r.objs.isEmpty)).map (·.objs))
    (hsub : (((v.done ++ [r]).filter (fun r => !r.objs.isEmpty)).map (·.objs)).Sublist v.applied)
    (hfrom : ∀ a ∈ v.applied, ∃ r' ∈ v.q.emitted, a = r'.objs)
    (hc : ∀ i ∈ v.q.closedReqs, i < v.done.length) : SInv (finish v r) := by
  have hget : v.q.emitted[v.done.length]? = some r := by rw [he]; simp
  have hstep : Queue.next v.q (.closeReq v.done.length) =
      { v.q with closedReqs := v.q.closedReqs ++ [v.done.length], closedFlush := v.q.closedFlush ++ r.flushes } := by
    simp [Queue.next, Queue.step, closeReq, hget]
  refine ⟨hr.next _, ?_, ha, hsub, ?_, ?_, by simp [finish]⟩
  · simp only [finish, hstep, optL, List.append_nil]; exact he
  · simp only [finish, hstep]; exact hfrom
  · simp only [finish, hstep, List.length_append, List.length_singleton]
    intro i hi
    rcases List.mem_append.1 hi with hi | hi
    · have := hc i hi; omega
    · simp only [List.mem_singleton] at hi; omega

theorem step_inv (v v' : Svc) (st : Step) (h : SInv v) (hs : step v st = some v') : SInv v' := by
  obtain ⟨hr, he, ha, hsub, hfrom, hc, hcur⟩ := h
  cases st with
  | queue qs =>
    simp only [step] at hs
    split at hs
    · rename_i henv
      cases hs
      have hh := env_hist v.q qs henv
      simp only [hist, Prod.mk.injEq] at hh
      exact ⟨hr.next qs, by rw [hh.1]; exact he, ha, hsub, by rw [hh.1]; exact hfrom, by rw [hh.2.1]; exact hc, hcur⟩
    · cases hs
  | take =>
    simp only [step] at hs
    split at hs
    · cases hs
    · rename_i hcond
      have hcn : v.cur = none := by
        cases hx : v.cur with
        | none => rfl
        | some _ => simp [hx] at hcond
      split at hs
      · cases hs
      · rename_i r hsend
        have hcons : Queue.next v.q .consume = { v.q with sendCh := none, emitted := v.q.emitted ++ [r] } := by
          simp [Queue.next, Queue.step, consume, hsend]
        have he' : (Queue.next v.q .consume).emitted = v.done ++ [r] := by
          rw [hcons, he, hcn]; simp [optL]
        have hc' : ∀ i ∈ (Queue.next v.q .consume).closedReqs, i < v.done.length := by
          rw [hcons]; exact hc
        split at hs
        · rename_i hempty
          cases hs
          have hfrom' : ∀ a ∈ v.applied, ∃ r' ∈ (Queue.next v.q .consume).emitted, a = r'.objs := by
            intro a hm
            obtain ⟨r', hr', e⟩ := hfrom a hm
            exact ⟨r', by rw [hcons]; exact List.mem_append_left _ hr', e⟩
          apply finish_inv
          · exact hr.next _
          · exact he'
          · intro h0
            simp only [List.filter_append, List.map_append, ha h0]
            simp [hempty]
          · simp only [List.filter_append, List.map_append]
            simpa [hempty] using hsub
          · exact hfrom'
          · exact hc'
        · rename_i hne
          cases hs
          have hfrom' : ∀ a ∈ v.applied, ∃ r' ∈ (Queue.next v.q .consume).emitted, a = r'.objs := by
            intro a hm
            obtain ⟨r', hr', e⟩ := hfrom a hm
            exact ⟨r', by rw [hcons]; exact List.mem_append_left _ hr', e⟩
          refine ⟨hr.next _, by simp only [he', optL], ha, hsub, hfrom', hc', ?_⟩
          intro r' hr'
          simp only [Option.some.injEq] at hr'
          subst hr'
          intro e; rw [e] at hne; exact hne rfl
  | execFail k =>
    simp only [step] at hs
    split at hs
    · cases hs
    · split at hs
      · cases hs; exact ⟨hr, he, ha, hsub, hfrom, hc, hcur⟩
      · cases hs
  | execFailCommitted =>
    simp only [step] at hs
    split at hs
    · cases hs
    · split at hs
      · rename_i r hcr
        cases hs
        refine ⟨hr, he, fun h0 => by simp at h0, hsub.trans (List.sublist_append_left _ _), ?_, hc, hcur⟩
        intro a hm
        rcases List.mem_append.1 hm with hm | hm
        · exact hfrom a hm
        · simp only [List.mem_singleton] at hm
          exact ⟨r, by rw [he, hcr]; simp [optL], hm⟩
      · cases hs
  | execOk =>
    simp only [step] at hs
    split at hs
    · cases hs
    · split at hs
      · rename_i r hcr
        cases hs
        have hne := hcur r hcr
        have hne' : r.objs.isEmpty = false := by
          cases ho : r.objs with
          | nil => exact absurd ho hne
          | cons _ _ => rfl
        apply finish_inv
        · exact hr
        · rw [he, hcr]; rfl
        · intro h0
          simp only [List.filter_append, List.map_append, ha h0]
          simp [hne']
        · simp only [List.filter_append, List.map_append]
          simp only [hne', Bool.not_false, List.filter_cons_of_pos, List.filter_nil, List.map_cons, List.map_nil]
          exact List.Sublist.append hsub (List.Sublist.refl _)
        · intro a hm
          rcases List.mem_append.1 hm with hm | hm
          · exact hfrom a hm
          · simp only [List.mem_singleton] at hm
            exact ⟨r, by rw [he, hcr]; simp [optL], hm⟩
        · exact hc
      · cases hs
  | stop => simp only [step] at hs; cases hs; exact ⟨hr, he, ha, hsub, hfrom, hc, hcur⟩

theorem next_inv (v : Svc) (st : Step) (h : SInv v) : SInv (next v st) := by
  unfold next
  cases hs : step v st with
  | none => exact h
  | some v' => exact step_inv _ _ _ h hs

theorem run_inv (v : Svc) (steps : List Step) (h : SInv v) : SInv (run v steps) := by
  induction steps generalizing v with
  | nil => exact h
  | cons st steps ih => exact ih _ (next_inv v st h)

end RqModel.QueueSvc

/-
C27  CDC events describe exactly the rows changed.

Property theorems only. Model: RqModel/Model/Cdc.lean (convertFn of RegisterPreUpdateHook, the
CDCStreamer, the statement loop of a write request over SQLite's hook semantics), tied to
db/db.go and db/cdc.go by the C27 correspondence run against real SQLite with a shadow database.

Recorded defect (known_findings.d/C27.json): events of a statement that fails after touching rows
are delivered with the next commit of the same request. The full statement is kept visible,
refuted by a witness and proved under the explicit exclusion.
-/
import RqModel.Model.Cdc
import RqModel.Gen.CdcHook
namespace C27
open RqModel.Cdc

/-- the row changes of a request that end up committed, in order (the specification) -/
def committedChanges (tx : Bool) (stmts : List Stmt) : List Change :=
  if tx then (if stmts.all (·.ok) then stmts.flatMap (·.touched) else [])
  else (stmts.filter (·.ok)).flatMap (·.touched)

def delivered (st : St) : List Event := st.groups.flatten

/-- statements as SQLite produces them: one that opens no write transaction touches no row -/
def WellFormed (stmts : List Stmt) : Prop := ∀ s ∈ stmts, s.writes = false → s.touched = []

/-- THE FULL STATEMENT (false of the code as it is): the events delivered for a write request
describe exactly the committed row changes (of the tables the filter matches), in order. -/
def events_equal_committed_changes_full : Prop :=
  ∀ (c : Cfg) (tx : Bool) (stmts : List Stmt), WellFormed stmts →
    delivered (request c tx stmts) = (committedChanges tx stmts).filterMap (convert c)

/-- the recorded failing inputs: outside a transaction, a statement that fails after touching rows -/
def failsAfterRows (stmts : List Stmt) : Bool := stmts.any fun s => !s.ok && !s.touched.isEmpty

/-- the other two exclusions, both environment conditions of `CommitHook`: the output channel has
room for every group of the request (a full channel DROPS the group - the commit itself always goes
through, the hook returns true; delivery under back-pressure is C25's subject), and `ColumnNames`
succeeds for every table (otherwise the events carry an error instead of column names) -/
def Undisturbed (c : Cfg) (stmts : List Stmt) : Prop := stmts.length + 1 ≤ c.room ∧ c.colsFail = []

theorem preupdate_eq (c : Cfg) (p : List Event) (g : List (List Event)) (dr : Nat) (ch : Change) :
    preupdate c ⟨p, g, dr⟩ ch = ⟨p ++ [ch].filterMap (convert c), g, dr⟩ := by
  unfold preupdate
  cases h : convert c ch <;> simp [List.filterMap_cons, h]

theorem preupdates_eq (c : Cfg) (p : List Event) (g : List (List Event)) (dr : Nat) (chs : List Change) :
    preupdates c ⟨p, g, dr⟩ chs = ⟨p ++ chs.filterMap (convert c), g, dr⟩ := by
  induction chs generalizing p with
  | nil => simp [preupdates]
  | cons ch rest ih =>
    have : preupdates c ⟨p, g, dr⟩ (ch :: rest) = preupdates c (preupdate c ⟨p, g, dr⟩ ch) rest := by
      simp [preupdates]
    rw [this, preupdate_eq, ih]
    cases h : convert c ch <;> simp [List.filterMap_cons, h]

theorem markCols_id (c : Cfg) (hc : c.colsFail = []) (evs : List Event) : evs.map (markCols c) = evs := by
  have : markCols c = id := by funext ev; simp [markCols, hc]
  rw [this]; simp

/-- with room in the channel and working column lookup the hook delivers what is pending -/
theorem commit_delivers (c : Cfg) (p : List Event) (g : List (List Event)) (dr : Nat)
    (hroom : g.length < c.room) (hc : c.colsFail = []) :
    ∃ g', commit c ⟨p, g, dr⟩ = ⟨[], g', dr⟩ ∧ g'.flatten = g.flatten ++ p ∧ g'.length ≤ g.length + 1 := by
  unfold commit
  cases p with
  | nil => exact ⟨g, by simp, by simp, by omega⟩
  | cons e es =>
    refine ⟨g ++ [e :: es], ?_, by simp, by simp⟩
    simp [hroom, markCols_id c hc]

theorem runAuto_clean (c : Cfg) (g : List (List Event)) (dr : Nat) (stmts : List Stmt)
    (hw : WellFormed stmts) (hf : failsAfterRows stmts = false)
    (hroom : g.length + stmts.length ≤ c.room) (hc : c.colsFail = []) :
    (runAuto c ⟨[], g, dr⟩ stmts).pending = [] ∧
    (runAuto c ⟨[], g, dr⟩ stmts).groups.flatten =
      g.flatten ++ ((stmts.filter (·.ok)).flatMap (·.touched)).filterMap (convert c) := by
  induction stmts generalizing g with
  | nil => simp [runAuto]
  | cons s rest ih =>
    have hw' : WellFormed rest := fun x hx => hw x (by simp [hx])
    simp only [failsAfterRows, List.any_cons, Bool.or_eq_false_iff] at hf
    have hf' : failsAfterRows rest = false := hf.2
    simp only [List.length_cons] at hroom
    unfold runAuto
    simp only [preupdates_eq, List.nil_append]
    cases hok : s.ok
    · have ht : s.touched = [] := by
        have := hf.1
        simp only [hok, Bool.not_false, Bool.true_and, Bool.not_eq_false', List.isEmpty_iff] at this
        exact this
      simp only [Bool.false_eq_true, if_false, ht, List.filterMap_nil]
      have := ih g hw' hf' (by omega)
      simp [List.filter_cons, hok, this]
    · simp only [if_true]
      cases hwr : s.writes
      · have ht : s.touched = [] := hw s (by simp) hwr
        simp only [Bool.false_eq_true, if_false, ht, List.filterMap_nil]
        have := ih g hw' hf' (by omega)
        simp [List.filter_cons, hok, ht, this]
      · simp only [if_true]
        obtain ⟨g', hcm, hfl, hlen⟩ := commit_delivers c (s.touched.filterMap (convert c)) g dr (by omega) hc
        rw [hcm]
        have := ih g' hw' hf' (by omega)
        rw [this.1, this.2, hfl]
        simp [List.filter_cons, hok, List.flatMap_cons, List.filterMap_append, List.append_assoc]

theorem runTx_eq (c : Cfg) (p : List Event) (g : List (List Event)) (dr : Nat) (stmts : List Stmt) :
    (runTx c ⟨p, g, dr⟩ stmts).2 = stmts.all (·.ok) ∧ (runTx c ⟨p, g, dr⟩ stmts).1.groups = g ∧
    (runTx c ⟨p, g, dr⟩ stmts).1.dropped = dr ∧
    ((runTx c ⟨p, g, dr⟩ stmts).2 = true →
      (runTx c ⟨p, g, dr⟩ stmts).1.pending = p ++ (stmts.flatMap (·.touched)).filterMap (convert c)) := by
  induction stmts generalizing p with
  | nil => simp [runTx]
  | cons s rest ih =>
    unfold runTx
    simp only [preupdates_eq]
    cases hok : s.ok
    · simp [hok]
    · simp only [if_true]
      obtain ⟨h1, h2, h3, h4⟩ := ih (p ++ s.touched.filterMap (convert c))
      refine ⟨by simp [h1, hok], h2, h3, fun hh => ?_⟩
      rw [h4 hh]
      simp [List.flatMap_cons, List.filterMap_append, List.append_assoc]

/-- Under the exclusions - the channel has room and column lookup works (`Undisturbed`), and, outside
a transaction request, no statement fails after touching rows - the delivered events are exactly
`convertFn` of the committed row changes of the matching tables, in order
(`convert` is the transcription of convertFn: see `convert_describes_change`).
For every configuration and every statement list. -/
theorem events_equal_committed_changes_partial (c : Cfg) (tx : Bool) (stmts : List Stmt)
    (hw : WellFormed stmts) (hu : Undisturbed c stmts) (hx : tx = true ∨ failsAfterRows stmts = false) :
    delivered (request c tx stmts) = (committedChanges tx stmts).filterMap (convert c) := by
  obtain ⟨hroom, hc⟩ := hu
  unfold request delivered committedChanges
  cases tx
  · simp only [Bool.false_eq_true, if_false]
    have hf : failsAfterRows stmts = false := by rcases hx with h | h; cases h; exact h
    have := (runAuto_clean c [] 0 stmts hw hf (by simp; omega) hc).2
    simpa using this
  · simp only [if_true]
    obtain ⟨h1, h2, h3, h4⟩ := runTx_eq c [] [] 0 stmts
    cases hall : stmts.all (·.ok)
    · have : (runTx c {} stmts).2 = false := by rw [h1, hall]
      simp only [this, Bool.false_and, Bool.false_eq_true, if_false]
      rw [h2]; simp
    · have hok : (runTx c {} stmts).2 = true := by rw [h1, hall]
      simp only [hok, Bool.true_and, if_true]
      have hp := h4 hok
      simp only [List.nil_append] at hp
      cases hany : stmts.any (fun s => s.writes)
      · have hnil : stmts.flatMap (·.touched) = [] := by
          simp only [List.flatMap_eq_nil_iff]
          intro s hs
          have : s.writes = false := by
            have := List.any_eq_false.mp hany s hs
            simpa using this
          exact hw s hs this
        simp [h2, hnil]
      · simp only [if_true]
        cases hst : runTx c {} stmts with
        | mk st ok =>
          rw [hst] at h2 h3 hp
          simp only at h2 h3 hp
          obtain ⟨pp, gg, dd⟩ := st
          simp only at h2 h3 hp
          subst h2
          obtain ⟨g', hcm, hfl, _⟩ := commit_delivers c pp [] dd (by simp; omega) hc
          rw [hcm, hfl, hp]
          simp

/-- witness for the channel: with no room the committed change is NOT delivered - it is counted as
dropped; the database change itself is committed regardless (the hook returns true) -/
theorem events_dropped_when_channel_full_witness :
    let c : Cfg := { idsOnly := false, tables := none, room := 0 }
    let r := request c false [⟨[{ table := "t", id := 1 }], true, true⟩]
    delivered r = [] ∧ r.dropped = 1 ∧
    (committedChanges false [⟨[{ table := "t", id := 1 }], true, true⟩]).filterMap (convert c) ≠ [] := by decide

def ins (t : String) (id : Nat) (rowid : Int) (row : Row) : Change :=
  { table := t, id := id, op := .insert, newRowID := rowid, new := row }

def insEv (t : String) (id : Nat) (rowid : Int) (row : Option Row) : Event :=
  { table := t, id := id, op := .insert, newRowId := rowid, newRow := row }

theorem events_phantom_witness :
    delivered (request { idsOnly := false, tables := none } false
        [⟨[ins "t" 3 503 [.int 1]], false, true⟩, ⟨[ins "t" 4 7 [.text "a"]], true, true⟩]) =
      [insEv "t" 3 503 (some [.int 1]), insEv "t" 4 7 (some [.text "a"])] ∧
    (committedChanges false
        [⟨[ins "t" 3 503 [.int 1]], false, true⟩, ⟨[ins "t" 4 7 [.text "a"]], true, true⟩]).filterMap
        (convert { idsOnly := false, tables := none }) =
      [insEv "t" 4 7 (some [.text "a"])] := by decide

theorem events_equal_committed_changes_full_is_false : ¬ events_equal_committed_changes_full := by
  intro h
  have := h { idsOnly := false, tables := none } false
    [⟨[ins "t" 3 503 [.int 1]], false, true⟩, ⟨[ins "t" 4 7 [.text "a"]], true, true⟩]
    (by intro s hs hwr; simp at hs; rcases hs with h | h <;> subst h <;> simp at hwr)
  rw [events_phantom_witness.1, events_phantom_witness.2] at this
  revert this
  decide

example : delivered (request { idsOnly := false, tables := some ["t1"] } true
    [⟨[ins "t1" 1 1 [.null], ins "t2" 2 1 []], true, true⟩, ⟨[], true, false⟩, ⟨[ins "t1" 3 2 [.blob [0, 255]]], true, true⟩]) =
    [insEv "t1" 1 1 (some [.null]), insEv "t1" 3 2 (some [.blob [0, 255]])] := by decide

/-! ### row-ids-only and the table filter: unconditional -/

/-- `ev` is `ev0` as convertFn made it, possibly marked with a column-lookup error at commit time -/
def FromEvent (ev ev0 : Event) : Prop := ev = ev0 ∨ ev = { ev0 with error := true }

/-- every event anywhere in the streamer state comes from `convert` of a change in `S` -/
def FromConvert (S : List Change) (c : Cfg) (st : St) : Prop :=
  ∀ ev, (ev ∈ st.pending ∨ ev ∈ st.groups.flatten) →
    ∃ ch ∈ S, ∃ ev0, convert c ch = some ev0 ∧ FromEvent ev ev0

theorem preupdates_inv (S : List Change) (c : Cfg) (st : St) (chs : List Change) (hS : ∀ ch ∈ chs, ch ∈ S)
    (h : FromConvert S c st) : FromConvert S c (preupdates c st chs) := by
  obtain ⟨p, g, dr⟩ := st
  rw [preupdates_eq]
  intro ev hev
  simp only [List.mem_append, List.mem_filterMap] at hev
  rcases hev with (h1 | ⟨ch, hch, hc⟩) | h2
  · exact h ev (Or.inl h1)
  · exact ⟨ch, hS ch hch, ev, hc, Or.inl rfl⟩
  · exact h ev (Or.inr h2)

theorem commit_inv (S : List Change) (c : Cfg) (st : St) (h : FromConvert S c st) :
    FromConvert S c (commit c st) := by
  obtain ⟨p, g, dr⟩ := st
  unfold commit
  split
  · exact h
  · split
    · intro ev hev
      simp only [List.not_mem_nil, false_or, List.flatten_append, List.flatten_cons, List.flatten_nil,
        List.append_nil, List.mem_append, List.mem_map] at hev
      rcases hev with h1 | ⟨e, he, rfl⟩
      · exact h ev (Or.inr h1)
      · obtain ⟨ch, hch, ev0, hc, hfe⟩ := h e (Or.inl he)
        refine ⟨ch, hch, ev0, hc, ?_⟩
        unfold markCols
        split
        · rcases hfe with rfl | rfl
          · exact Or.inr rfl
          · exact Or.inr rfl
        · exact hfe
    · intro ev hev
      simp only [List.not_mem_nil, false_or] at hev
      exact h ev (Or.inr hev)

theorem runAuto_inv (S : List Change) (c : Cfg) (st : St) (stmts : List Stmt)
    (hS : ∀ s ∈ stmts, ∀ ch ∈ s.touched, ch ∈ S) (h : FromConvert S c st) :
    FromConvert S c (runAuto c st stmts) := by
  induction stmts generalizing st with
  | nil => simpa [runAuto] using h
  | cons s rest ih =>
    unfold runAuto
    simp only
    have h1 := preupdates_inv S c st s.touched (hS s (by simp)) h
    have hS' : ∀ x ∈ rest, ∀ ch ∈ x.touched, ch ∈ S := fun x hx => hS x (by simp [hx])
    split
    · split
      · exact ih _ hS' (commit_inv S c _ h1)
      · exact ih _ hS' h1
    · exact ih _ hS' h1

theorem runTx_inv (S : List Change) (c : Cfg) (st : St) (stmts : List Stmt)
    (hS : ∀ s ∈ stmts, ∀ ch ∈ s.touched, ch ∈ S) (h : FromConvert S c st) :
    FromConvert S c (runTx c st stmts).1 := by
  induction stmts generalizing st with
  | nil => simpa [runTx] using h
  | cons s rest ih =>
    unfold runTx
    simp only
    have h1 := preupdates_inv S c st s.touched (hS s (by simp)) h
    split
    · exact ih _ (fun x hx => hS x (by simp [hx])) h1
    · exact h1

theorem request_inv (c : Cfg) (tx : Bool) (stmts : List Stmt) :
    FromConvert (stmts.flatMap (·.touched)) c (request c tx stmts) := by
  have h0 : FromConvert (stmts.flatMap (·.touched)) c {} := by intro ev hev; simp at hev
  have hS : ∀ s ∈ stmts, ∀ ch ∈ s.touched, ch ∈ stmts.flatMap (·.touched) := by
    intro s hs ch hch
    simp only [List.mem_flatMap]
    exact ⟨s, hs, hch⟩
  unfold request
  cases tx
  · simpa using runAuto_inv _ c {} stmts hS h0
  · simp only [if_true]
    have := runTx_inv _ c {} stmts hS h0
    split
    · exact commit_inv _ c _ this
    · exact this

/-- What `convertFn` puts into an event, for a change of a table the filter lets through: the
operation and table of the change; the new row id for INSERT, both for UPDATE, the old one for
DELETE; and - unless in row-ids-only mode - the OLD row exactly as SQLite reports it for UPDATE and
DELETE and the NEW row exactly as SQLite reports it for INSERT and UPDATE (nothing for the side that
does not exist). In row-ids-only mode no column values at all. -/
theorem convert_describes_change (c : Cfg) (d : Change) (ev : Event) (h : convert c d = some ev)
    (hop : ∀ k, d.op ≠ .unknown k) :
    ev.table = d.table ∧ ev.id = d.id ∧ ev.op = d.op ∧ ev.error = false ∧
    (d.op = .insert → ev.newRowId = d.newRowID ∧ ev.oldRowId = 0) ∧
    (d.op = .update → ev.newRowId = d.newRowID ∧ ev.oldRowId = d.oldRowID) ∧
    (d.op = .delete → ev.oldRowId = d.oldRowID ∧ ev.newRowId = 0) ∧
    (c.idsOnly = true → ev.oldRow = none ∧ ev.newRow = none) ∧
    (c.idsOnly = false →
      ev.oldRow = (if d.op = .insert then none else some d.old) ∧
      ev.newRow = (if d.op = .delete then none else some d.new)) := by
  unfold convert at h
  by_cases hm : tableMatches c d.table = true
  · simp only [hm, Bool.not_true, Bool.false_eq_true, if_false] at h
    cases hd : d.op with
    | unknown k => exact absurd hd (hop k)
    | insert => cases hi : c.idsOnly <;> simp [baseEvent, withRows, hd, hi] at h <;> subst h <;> simp [hd]
    | update => cases hi : c.idsOnly <;> simp [baseEvent, withRows, hd, hi] at h <;> subst h <;> simp [hd]
    | delete => cases hi : c.idsOnly <;> simp [baseEvent, withRows, hd, hi] at h <;> subst h <;> simp [hd]
  · simp [hm] at h

theorem convert_filter (c : Cfg) (d : Change) (ev : Event) (h : convert c d = some ev) :
    ev.table = d.table ∧ ∀ ts, c.tables = some ts → ev.table ∈ ts := by
  unfold convert at h
  by_cases hm : tableMatches c d.table = true
  · simp only [hm, Bool.not_true, Bool.false_eq_true, if_false] at h
    have ht : ev.table = d.table := by
      cases hd : d.op <;> cases hi : c.idsOnly <;> simp [baseEvent, withRows, hd, hi] at h <;> subst h <;> rfl
    refine ⟨ht, fun ts hts => ?_⟩
    rw [ht]
    simpa [tableMatches, hts] using hm
  · simp [hm] at h

theorem convert_idsOnly (c : Cfg) (d : Change) (ev : Event) (h : convert c d = some ev)
    (hi : c.idsOnly = true) : ev.oldRow = none ∧ ev.newRow = none := by
  unfold convert at h
  by_cases hm : tableMatches c d.table = true
  · simp only [hm, Bool.not_true, Bool.false_eq_true, if_false] at h
    cases hd : d.op <;> simp [baseEvent, hd, hi] at h <;> subst h <;> simp
  · simp [hm] at h

/-- In row-ids-only mode no delivered event carries column values, for every request - failing
statements and phantom events included. Proved from the transcription of `convertFn` (the old/new
rows are never read in that mode). -/
theorem ids_only_has_no_values (c : Cfg) (tx : Bool) (stmts : List Stmt) (hi : c.idsOnly = true) :
    ∀ ev ∈ delivered (request c tx stmts), ev.oldRow = none ∧ ev.newRow = none := by
  intro ev hev
  obtain ⟨ch, _, ev0, hc, hfe⟩ := request_inv c tx stmts ev (Or.inr hev)
  have := convert_idsOnly c ch ev0 hc hi
  rcases hfe with rfl | rfl
  · exact this
  · exact this

/-- With a table filter only matching tables appear, for every request. -/
theorem filter_only_matching_tables (c : Cfg) (tx : Bool) (stmts : List Stmt) (ts : List String)
    (hf : c.tables = some ts) : ∀ ev ∈ delivered (request c tx stmts), ev.table ∈ ts := by
  intro ev hev
  obtain ⟨ch, _, ev0, hc, hfe⟩ := request_inv c tx stmts ev (Or.inr hev)
  have := (convert_filter c ch ev0 hc).2 ts hf
  rcases hfe with rfl | rfl
  · exact this
  · exact this

/-- every delivered event describes a row change SQLite reported DURING THIS REQUEST (one of the
changes touched by its statements - committed or not: see the phantom witness), with exactly its operation,
table, row ids and (outside row-ids-only mode) before/after rows; the only thing commit time can add
is the error mark of a failed column lookup -/
theorem delivered_events_describe_reported_changes (c : Cfg) (tx : Bool) (stmts : List Stmt) :
    ∀ ev ∈ delivered (request c tx stmts),
      ∃ d ∈ stmts.flatMap (·.touched), ∃ ev0, convert c d = some ev0 ∧ FromEvent ev ev0 :=
  fun ev hev => request_inv c tx stmts ev (Or.inr hev)

/-- … and a matching table's change is never filtered out -/
theorem filter_keeps_matching (c : Cfg) (d : Change)
    (h : ∀ ts, c.tables = some ts → d.table ∈ ts) : (convert c d).isSome = true := by
  have hm : tableMatches c d.table = true := by
    unfold tableMatches
    cases hc : c.tables with
    | none => rfl
    | some ts => simpa using h ts hc
  unfold convert
  simp only [hm, Bool.not_true, Bool.false_eq_true, if_false]
  cases baseEvent d <;> cases c.idsOnly <;> simp

example : delivered (request { idsOnly := true, tables := some ["t1"] } false
    [⟨[ins "t1" 1 9 [.int 5], ins "t2" 2 1 []], true, true⟩]) = [insEv "t1" 1 9 none] := by decide

def updDemo : Change :=
  { table := "t", id := 1, op := .update, oldRowID := 4, newRowID := 5,
    old := [.int 1, .text "a"], «new» := [.int 2, .text "a"] }

def updDemoEv : Event :=
  { table := "t", id := 1, op := .update, oldRowId := 4, newRowId := 5,
    oldRow := some [.int 1, .text "a"], newRow := some [.int 2, .text "a"] }

example : convert { idsOnly := false, tables := none } updDemo = some updDemoEv := by decide

/-! ### the commit hook never vetoes a commit (regenerated fact) -/

/-- Every `return` of CDCStreamer.CommitHook is the literal `true`, and its send to the output channel
cannot block (select with default): the hook is registered as SQLite's commit hook, so any other
result would turn a COMMIT into a ROLLBACK on this node only - CDC back-pressure would decide the
database's contents. The model's `commit` accordingly never touches the database. Regenerated from
db/cdc.go on every run. -/
theorem commit_hook_always_lets_the_commit_through :
    RqModel.Gen.CdcHook.commitHookReturns = ["true", "true"] ∧
    RqModel.Gen.CdcHook.commitHookSendsNonBlocking = true := by decide

end C27

package main

// StoreStaging (C04): where store/store.go drops the wal-staging directory.

import (
	"go/ast"
	"go/token"
)

func init() {
	register("StoreStaging", func(x *X) {
		removesStaging := func(n ast.Node) []token.Pos {
			var ps []token.Pos
			for _, c := range x.Calls(n, "RemoveAll") {
				if len(c.Args) == 1 && x.Src(c.Args[0]) == "s.walStagingDir" {
					ps = append(ps, c.Pos())
				}
			}
			return ps
		}
		x.Comment("(*Store).fsmSnapshot: in the `if dueNext.IsFull()` branch, wal-staging is removed (and a full snapshot kept required) before the checkpoint")
		var ok1, f1, alwaysOK, alwaysFound bool
		if fd := x.Func("store", "Store", "fsmSnapshot"); fd != nil {
			ast.Inspect(fd.Body, func(n ast.Node) bool {
				is, isIf := n.(*ast.IfStmt)
				if !isIf || x.Src(is.Cond) != "dueNext.IsFull()" {
					return true
				}
				f1 = true
				rm := removesStaging(is.Body)
				ck := x.Calls(is.Body, "Checkpoint")
				sd := x.Calls(is.Body, "SetDueNext")
				if len(rm) == 1 && len(ck) >= 1 && rm[0] < ck[0].Pos() && len(sd) == 1 && x.Src(sd[0].Args[0]) == "snapshot.Full" && sd[0].Pos() < rm[0] {
					ok1 = true
				}
				// both must be unconditional: `if err := <call>; err != nil {…}` statements directly in the branch
				uncond := 0
				for _, st := range is.Body.List {
					if ifs, isIf := st.(*ast.IfStmt); isIf && ifs.Init != nil {
						init := x.Src(ifs.Init)
						if init == "err := s.snapshotStore.SetDueNext(snapshot.Full)" || init == "err := os.RemoveAll(s.walStagingDir)" {
							uncond++
						}
					}
				}
				alwaysOK = ok1 && uncond == 2
				alwaysFound = true
				// the incremental branch must not remove it
				if is.Else != nil && len(removesStaging(is.Else)) > 0 {
					ok1 = false
				}
				return false
			})
		}
		x.DefOptBool("fullSnapshotDropsStaging", ok1, f1)
		x.Comment("… and both the SetDueNext(Full) and the removal are unconditional statements of that branch")
		x.DefOptBool("fullSnapshotAlwaysRequiresFull", alwaysOK, alwaysFound)

		x.Comment("(*Store).fsmSnapshot full branch: the requirement token is read right after SetDueNext(Full) and put into the FSMSnapshot; FSMSnapshot.Persist hands it to the sink")
		var tokOK, tokFound bool
		if fd := x.Func("store", "Store", "fsmSnapshot"); fd != nil {
			ast.Inspect(fd.Body, func(n ast.Node) bool {
				is, isIf := n.(*ast.IfStmt)
				if !isIf || x.Src(is.Cond) != "dueNext.IsFull()" {
					return true
				}
				tokFound = true
				sd := x.Calls(is.Body, "SetDueNext")
				tk := x.Calls(is.Body, "FullNeededToken")
				ck := x.Calls(is.Body, "Checkpoint")
				if len(sd) == 1 && len(tk) == 1 && len(ck) >= 1 && sd[0].Pos() < tk[0].Pos() && tk[0].Pos() < ck[0].Pos() {
					tokOK = true
				}
				return false
			})
			if tokOK {
				tokOK = false
				ast.Inspect(fd.Body, func(n ast.Node) bool {
					if kv, ok := n.(*ast.KeyValueExpr); ok && x.Src(kv.Key) == "FullNeededToken" && x.Src(kv.Value) == "fullNeededToken" {
						tokOK = true
					}
					return true
				})
			}
		}
		if pd := x.Func("store", "FSMSnapshot", "Persist"); pd == nil || len(x.Calls(pd.Body, "SetFullNeededToken")) != 1 {
			tokOK = false
		}
		x.DefOptBool("fullSnapshotCapturesToken", tokOK, tokFound)

		x.Comment("(*Store).fsmRestore: wal-staging is removed after the database swap")
		var ok2, f2 bool
		if fd := x.Func("store", "Store", "fsmRestore"); fd != nil {
			f2 = true
			rm := removesStaging(fd.Body)
			sw := x.Calls(fd.Body, "Swap")
			if len(rm) == 1 && len(sw) == 1 && sw[0].Pos() < rm[0] {
				ok2 = true
			}
		}
		x.DefOptBool("restoreDropsStaging", ok2, f2)

		x.Comment("(*Store).Open removes wal-staging")
		var ok3, f3 bool
		if fd := x.Func("store", "Store", "Open"); fd != nil {
			f3 = true
			ok3 = len(removesStaging(fd.Body)) == 1
		}
		x.DefOptBool("openDropsStaging", ok3, f3)
	})
}

import RqModel.Model.WalCkpt
namespace C06
open RqModel.WalCkpt
theorem placeholder : (1 : Nat) = 1 := rfl
end C06

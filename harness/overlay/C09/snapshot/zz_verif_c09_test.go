package snapshot

// C09 correspondence + spec oracle: operation sequences on the real snapshot.Store API
// (Create / Write / Close / Cancel with full and incremental payloads, SetDueNext(Full), Reap,
// reopen, crash inside Sink.Close) compared with the Lean model `snapcat`
// (RqModel/Model/SnapCat.lean over SnapFS.lean).
//
// Crash points inside Sink.Close need no hooks: Close's steps are performed one by one with
// the same real building blocks (os.Rename of the WAL directory, StagingDir.MoveWALFilesTo,
// FullSink.Close, writeMeta, the final rename) and the process "dies" (store closed, sink
// abandoned) after the chosen step; the store is then reopened with the real NewStore.

import (
	"bytes"
	"fmt"
	"hash/fnv"
	"io"
	"os"
	"path/filepath"
	"sort"
	"strconv"
	"strings"
	"testing"
	"time"

	"github.com/hashicorp/raft"
	"github.com/rqlite/rqlite/v10/db"
	"github.com/rqlite/rqlite/v10/internal/rsum"
	"github.com/rqlite/rqlite/v10/snapshot/sidecar"
)

type c09Art struct {
	dir string
	n   int
}

func (a *c09Art) dbPath(t int) string  { return filepath.Join(a.dir, fmt.Sprintf("db_%02d.db", t)) }
func (a *c09Art) segPath(t int) string { return filepath.Join(a.dir, fmt.Sprintf("seg_%02d.wal", t)) }

func c09Build(t *testing.T, n int) *c09Art {
	a := &c09Art{dir: t.TempDir(), n: n}
	live := filepath.Join(a.dir, "live.db")
	d, err := db.Open(live, false, true)
	if err != nil {
		t.Fatal(err)
	}
	defer d.Close()
	exec := func(q string) {
		rs, err := d.ExecuteStringStmt(q)
		if err != nil || rs[0].GetError() != "" {
			t.Fatalf("exec: %v %v", err, rs)
		}
	}
	exec("CREATE TABLE t (id INTEGER PRIMARY KEY, pad TEXT)")
	if _, err := d.Checkpoint(db.CheckpointTruncate); err != nil {
		t.Fatal(err)
	}
	for i := 1; i <= n; i++ {
		exec(fmt.Sprintf("INSERT INTO t(id, pad) VALUES(%d, '%s')", i, strings.Repeat("y", 100+(i%3)*900)))
		b, _ := os.ReadFile(live + "-wal")
		os.WriteFile(a.segPath(i), b, 0o644)
		if m, err := d.Checkpoint(db.CheckpointTruncate); err != nil || !m.Success() {
			t.Fatalf("checkpoint: %v", err)
		}
		b, _ = os.ReadFile(live)
		os.WriteFile(a.dbPath(i), b, 0o644)
	}
	return a
}

func c09Content(path string) string {
	tmp, _ := os.MkdirTemp("", "c09q")
	defer os.RemoveAll(tmp)
	cp := filepath.Join(tmp, "q.db")
	b, err := os.ReadFile(path)
	if err != nil {
		return "corrupt"
	}
	os.WriteFile(cp, b, 0o644)
	d, err := db.Open(cp, false, true)
	if err != nil {
		return "corrupt:open"
	}
	defer d.Close()
	rows, err := d.QueryStringStmt("SELECT id FROM t ORDER BY rowid")
	if err != nil || len(rows) != 1 || rows[0].GetError() != "" {
		return "corrupt:query"
	}
	var ids []string
	for _, v := range rows[0].Values {
		ids = append(ids, strconv.FormatInt(v.GetParameters()[0].GetI(), 10))
	}
	if len(ids) == 0 {
		return "e"
	}
	return strings.Join(ids, ",")
}

func c09Range(a, b int) string {
	var s []string
	for i := a; i <= b; i++ {
		s = append(s, strconv.Itoa(i))
	}
	if len(s) == 0 {
		return "-"
	}
	return strings.Join(s, ",")
}

type c09Env struct {
	pendingSink *Sink
	t      *testing.T
	art    *c09Art
	dir    string
	str    *Store
	names  map[string]int
	next   int
	cover  map[int]int // installed snapshot nat -> last point covered
	ops    []string
	impl   []string
	rep    *vfReport
	hist   []string
}

func (e *c09Env) nat(id string) int {
	id = strings.TrimSuffix(id, tmpSuffix)
	if n, ok := e.names[id]; ok {
		return n
	}
	return -1
}

func (e *c09Env) emit(op, res string) {
	// every generated operation with a side condition in C09's theorems (OpOK') is first
	// checked by the model to lie inside that proven domain
	for _, pre := range []string{"create ", "wfull ", "winc ", "crashclose ", "reap "} {
		if strings.HasPrefix(op, pre) {
			e.ops = append(e.ops, "admissible "+op)
			e.impl = append(e.impl, "yes")
		}
	}
	e.ops = append(e.ops, op)
	e.impl = append(e.impl, res)
}

func (e *c09Env) open() {
	str, err := NewStore(e.dir)
	if err != nil {
		e.emit("reopen", "err "+err.Error())
		e.rep.Fail("store-does-not-open", fmt.Sprintf("history %v: NewStore: %v", e.hist, err), map[string]interface{}{"history": e.hist})
		e.str = nil
		return
	}
	str.fatalFn = nil
	str.reapDisabled.Set()
	e.str = str
}

// observe emits list/due/ls/open lines and evaluates the catalog part of the property.
func (e *c09Env) observe() {
	if e.str == nil {
		return
	}
	metas, err := e.str.ListAll()
	if err != nil {
		e.emit("list", "err "+err.Error())
		e.rep.Fail("list-fails", fmt.Sprintf("history %v: ListAll: %v", e.hist, err), map[string]interface{}{"history": e.hist})
		return
	}
	var parts []string
	for i, m := range metas {
		kind := "I"
		if _, err := os.Stat(filepath.Join(e.dir, m.ID, dbfileName)); err == nil {
			kind = "F"
		}
		parts = append(parts, fmt.Sprintf("%d:%d:%d:%s", e.nat(m.ID), m.Index, m.Term, kind))
		if i > 0 {
			p := metas[i-1]
			if p.Term < m.Term || (p.Term == m.Term && p.Index < m.Index) {
				e.rep.Fail("list-not-newest-first", fmt.Sprintf("history %v: %v", e.hist, parts), map[string]interface{}{"history": e.hist})
			}
		}
		if _, ok := e.cover[e.nat(m.ID)]; !ok {
			e.rep.Fail("lists-snapshot-that-never-completed", fmt.Sprintf("history %v: lists %s", e.hist, m.ID), map[string]interface{}{"history": e.hist})
		}
	}
	l := "-"
	if len(parts) > 0 {
		l = strings.Join(parts, " ")
	}
	e.emit("list", "ok "+l)
	dn, _ := e.str.DueNext()
	e.emit("due", dn.String())
	if fileExistsC09(e.str.fullNeededPath) {
		e.emit("flag", "set")
	} else {
		e.emit("flag", "clear")
	}
	ents, _ := os.ReadDir(e.dir)
	var ls []string
	type nn struct {
		n int
		s string
	}
	var ns []nn
	for _, en := range ents {
		if en.IsDir() {
			s := strconv.Itoa(e.nat(en.Name()))
			if isTmpName(en.Name()) {
				s += "t"
			}
			ns = append(ns, nn{e.nat(en.Name()), s})
		}
	}
	sort.Slice(ns, func(i, j int) bool { return ns[i].n < ns[j].n })
	for _, x := range ns {
		ls = append(ls, x.s)
	}
	lss := "-"
	if len(ls) > 0 {
		lss = strings.Join(ls, " ")
	}
	e.emit("ls", lss)
	for _, m := range metas {
		n := e.nat(m.ID)
		res := e.openRestore(m.ID)
		e.emit(fmt.Sprintf("open %d", n), res)
		if want, ok := e.cover[n]; ok && want >= 0 && res != c09Range(1, want) {
			e.rep.Fail("listed-snapshot-does-not-resolve", fmt.Sprintf("history %v: snapshot %s restores to %q, want rows 1..%d", e.hist, m.ID, res, want), map[string]interface{}{"history": e.hist})
		}
	}
}

func (e *c09Env) openRestore(id string) string {
	_, rc, err := e.str.Open(id)
	if err != nil {
		return "err " + c09Err(err.Error())
	}
	defer rc.Close()
	dst := filepath.Join(e.t.TempDir(), "r.db")
	if _, err := Restore(rc, dst); err != nil {
		return "err restore:" + err.Error()
	}
	return c09Content(dst)
}

func c09Err(msg string) string {
	switch {
	case strings.Contains(msg, "full snapshot needed"):
		return "full-needed"
	case strings.Contains(msg, ErrIncomplete.Error()):
		return "incomplete"
	case strings.Contains(msg, "CRC32 mismatch"):
		return "crc"
	case strings.Contains(msg, "failed to rename snapshot directory"):
		return "rename"
	case strings.Contains(msg, "no full snapshot found"):
		return "resolve"
	}
	return "other:" + msg
}

func c09WriteCRC(path string) {
	sum, _ := rsum.CRC32(path)
	sidecar.WriteFile(path+crcSuffix, sum)
}

func c09Hash(b []byte) uint64 { h := fnv.New64a(); h.Write(b); return h.Sum64() }

func TestVerifC09(t *testing.T) {
	rep := vfNewReport("C09", "operation sequences on a real snapshot.Store (6-14 [thorough 10-30] steps: a sink life cycle — create, full payload {complete, short, CRC-mismatching} or incremental payload (1-2 WAL files), optionally SetDueNext(Full) between the header and the end, then Close / Cancel / crash at one of 4 points inside Close followed by reopen —, SetDueNext(Full), Reap, reopen); one sink at a time with increasing index; after every step List/DueNext/directory listing/Open+Restore of every listed snapshot compared with the model and with the rows each installed snapshot must hold; non-trivial: the sequence installs at least two snapshots; distinct by op text")
	defer rep.Write()
	r := vfNewRng(9)
	art := c09Build(t, 40)
	nSeq := vfScale(45, 900)
	var allOps, allImpl [][]string
	for si := 0; si < nSeq; si++ {
		e := &c09Env{t: t, art: art, dir: filepath.Join(t.TempDir(), "snaps"), names: map[string]int{}, cover: map[int]int{}, rep: rep}
		e.emit("reset", "ok")
		e.open()
		cur := 0 // last point covered by installed snapshots
		index := uint64(0)
		term := uint64(1)
		installed := 0
		steps := vfScale(6, 10) + r.Intn(vfScale(9, 21))
		for st := 0; st < steps && e.str != nil && cur < art.n-6; st++ {
			switch c := r.Intn(10); {
			case c < 6:
				// --- one sink life cycle
				index += uint64(1 + r.Intn(3))
				if r.Chance(15) {
					term++
				}
				h := st + 1
				sinkI, err := e.str.Create(1, index, term, raft.Configuration{}, 1, nil)
				if err != nil {
					t.Fatalf("Create: %v", err)
				}
				sink := sinkI.(*Sink)
				sink.fatalFn = nil
				e.next++
				nat := e.next
				e.names[sink.ID()] = nat
				e.emit(fmt.Sprintf("create %d %d %d %d", h, nat, index, term), "ok")
				e.hist = append(e.hist, fmt.Sprintf("create(index=%d)", index))
				// payload
				wantFull := installed == 0 || r.Chance(35)
				accepted := false
				covers := cur
				var walDir string
				if r.Chance(8) {
					// no payload at all
					e.hist = append(e.hist, "no-payload")
				} else if wantFull {
					dbT := cur + 1 + r.Intn(2)
					nw := r.Intn(2)
					verdict := "ok"
					if r.Chance(20) {
						verdict = []string{"short", "badcrc"}[r.Intn(2)]
					}
					var wps []string
					var ws []string
					for i := 1; i <= nw; i++ {
						wps = append(wps, art.segPath(dbT+i))
						ws = append(ws, strconv.Itoa(dbT+i))
					}
					str, err := NewSnapshotStreamer(art.dbPath(dbT), wps...)
					if err != nil {
						t.Fatal(err)
					}
					if err := str.Open(); err != nil {
						t.Fatal(err)
					}
					data, _ := io.ReadAll(str)
					str.Close()
					switch verdict {
					case "short":
						data = data[:len(data)-7]
					case "badcrc":
						data[len(data)-3] ^= 0x5a
					}
					_, werr := io.Copy(sink, bytes.NewReader(data))
					res := "ok"
					if werr != nil {
						res = "err " + c09Err(werr.Error())
					}
					wss := "-"
					if len(ws) > 0 {
						wss = strings.Join(ws, ",")
					}
					e.emit(fmt.Sprintf("wfull %d %s %s %s", h, c09Range(1, dbT), wss, verdict), res)
					e.hist = append(e.hist, "write-full("+verdict+")")
					accepted = verdict == "ok" && werr == nil
					covers = dbT + nw
				} else {
					nw := 1 + r.Intn(2)
					walDir = filepath.Join(t.TempDir(), "wal-staging")
					os.MkdirAll(walDir, 0o755)
					var ws []string
					for i := 1; i <= nw; i++ {
						p := filepath.Join(walDir, fmt.Sprintf("%024d-%06d.wal", cur+i, i))
						b, _ := os.ReadFile(art.segPath(cur + i))
						os.WriteFile(p, b, 0o644)
						c09WriteCRC(p)
						ws = append(ws, strconv.Itoa(cur+i))
					}
					str, err := NewSnapshotPathStreamer(walDir)
					if err != nil {
						t.Fatal(err)
					}
					_, werr := io.Copy(sink, str)
					res := "ok"
					if werr != nil {
						res = "err " + c09Err(werr.Error())
					}
					e.emit(fmt.Sprintf("winc %d %s", h, strings.Join(ws, ",")), res)
					e.hist = append(e.hist, "write-incremental:"+res)
					accepted = werr == nil
					covers = cur + nw
				}
				setBetween := false
				if r.Chance(25) {
					if err := e.str.SetDueNext(Full); err != nil {
						t.Fatal(err)
					}
					e.emit("setfull", "ok")
					e.hist = append(e.hist, "SetDueNext(Full)")
					setBetween = true
				}
				fnBefore := fileExistsC09(e.str.fullNeededPath)
				end := r.Intn(10)
				if end >= 8 && walDir != "" && fnBefore {
					end = 0 // Close refuses before consuming anything: no crash point to explore
				}
				switch {
				case end < 6:
					// one Close in six runs against a final name taken by a plain file: the rename fails
					blocked := r.Chance(16)
					if blocked {
						if err := os.WriteFile(sink.snapDirPath, []byte("x"), 0o644); err != nil {
							t.Fatal(err)
						}
					}
					cerr := sink.Close()
					if blocked {
						os.Remove(sink.snapDirPath)
					}
					res := "ok"
					if cerr != nil {
						res = "err " + c09Err(cerr.Error())
					}
					if blocked {
						e.emit(fmt.Sprintf("closerf %d", h), res)
						e.hist = append(e.hist, "close(final rename fails):"+res)
					} else {
						e.emit(fmt.Sprintf("close %d", h), res)
						e.hist = append(e.hist, "close:"+res)
					}
					if cerr == nil {
						if walDir != "" && fnBefore {
							sig := "incremental-accepted-while-full-needed"
							if setBetween {
								sig += ":set-between-header-and-close"
							}
							rep.Fail(sig, fmt.Sprintf("history %v: Close installed an incremental snapshot while FULL_NEEDED was set; FULL_NEEDED afterwards: %v", e.hist, fileExistsC09(e.str.fullNeededPath)),
								map[string]interface{}{"history": e.hist})
						}
						if walDir == "" && setBetween && fnBefore && !fileExistsC09(e.str.fullNeededPath) {
							rep.Fail("requirement-raised-after-capture-cleared-by-full-close", fmt.Sprintf("history %v: SetDueNext(Full) was called after the sink of this full snapshot had been created, and its Close cleared FULL_NEEDED", e.hist),
								map[string]interface{}{"history": e.hist})
						}
						if accepted {
							e.cover[nat] = covers
							cur = covers
							installed++
						}
					} else if fnBefore && !fileExistsC09(e.str.fullNeededPath) {
						rep.Fail("full-needed-cleared-by-failed-close", fmt.Sprintf("history %v", e.hist), map[string]interface{}{"history": e.hist})
					}
					if cerr != nil {
						// raft cancels a sink whose persist failed; Cancel after Close is a no-op
						sink.Cancel()
					}
				case end < 8:
					cres := "ok"
					if cerr := sink.Cancel(); cerr != nil {
						cres = "err " + c09Err(cerr.Error())
					}
					e.emit(fmt.Sprintf("cancel %d", h), cres)
					e.hist = append(e.hist, "cancel")
					if fnBefore && !fileExistsC09(e.str.fullNeededPath) {
						rep.Fail("full-needed-cleared-by-cancel", fmt.Sprintf("history %v", e.hist), map[string]interface{}{"history": e.hist})
					}
				default:
					cut := []string{"w", "f", "m", "r"}[r.Intn(4)]
					if accepted {
						e.crashInClose(sink, walDir, cut)
						if cut == "r" {
							e.cover[nat] = covers
							cur = covers
							installed++
						}
					}
					e.emit(fmt.Sprintf("crashclose %d %s", h, cut), "ok")
					e.hist = append(e.hist, "crash-in-close:"+cut)
					e.str.Close()
					e.emit("reopen", "ok")
					e.open()
				}
			case c < 7:
				e.str.SetDueNext(Full)
				e.emit("setfull", "ok")
				e.hist = append(e.hist, "SetDueNext(Full)")
			case c < 9:
				fnBefore := fileExistsC09(e.str.fullNeededPath)
				e.reapPlanOracle()
				_, _, rerr := e.str.Reap()
				res := "ok"
				if rerr != nil {
					res = "err " + rerr.Error()
					rep.Fail("reap-fails", fmt.Sprintf("history %v: %v", e.hist, rerr), map[string]interface{}{"history": e.hist})
				}
				// a consolidating reap renames the newest full snapshot
				newNat := 0
				ents, _ := os.ReadDir(e.dir)
				for _, en := range ents {
					if en.IsDir() && e.nat(en.Name()) < 0 {
						e.next++
						newNat = e.next
						e.names[en.Name()] = newNat
						e.cover[newNat] = cur
					}
				}
				if newNat == 0 {
					newNat = 900000 + st
				}
				e.emit(fmt.Sprintf("reap %d", newNat), res)
				e.hist = append(e.hist, "reap")
				if fnBefore != fileExistsC09(e.str.fullNeededPath) {
					rep.Fail("full-needed-changed-by-reap", fmt.Sprintf("history %v", e.hist), map[string]interface{}{"history": e.hist})
				}
			default:
				fnBefore := fileExistsC09(e.str.fullNeededPath)
				e.str.Close()
				e.emit("reopen", "ok")
				e.hist = append(e.hist, "reopen")
				e.open()
				if e.str != nil && fnBefore != fileExistsC09(e.str.fullNeededPath) {
					rep.Fail("full-needed-changed-by-reopen", fmt.Sprintf("history %v", e.hist), map[string]interface{}{"history": e.hist})
				}
			}
			e.observe()
		}
		if e.str != nil {
			e.str.Close()
		}
		rep.Case(strings.Join(e.ops, ";"), installed >= 2)
		rep.Count(fmt.Sprintf("installed=%d", installed))
		if si < 3 {
			rep.Sample(map[string]interface{}{"history": e.hist})
		}
		allOps = append(allOps, e.ops)
		allImpl = append(allImpl, e.impl)
	}
	// --- overlapping sinks (OUTSIDE the admissible sequences of catalog_inv; the Lean witness
	// C09.overlapping_sinks_witness): a local sink is created, a snapshot "from the leader" with a
	// higher index is created, written and installed into the empty store, then the local sink gets
	// an incremental header and is closed. Model and real store must agree on what that leaves: an
	// incremental listed below the only full snapshot, which does not open.
	{
		e := &c09Env{t: t, art: art, dir: filepath.Join(t.TempDir(), "snaps"), names: map[string]int{}, cover: map[int]int{}, rep: rep}
		e.emit("reset", "ok")
		e.open()
		lI, err := e.str.Create(1, 50, 1, raft.Configuration{}, 1, nil)
		if err != nil {
			t.Fatal(err)
		}
		local := lI.(*Sink)
		local.fatalFn = nil
		e.names[local.ID()] = 5
		e.ops, e.impl = append(e.ops, "create 1 5 50 1"), append(e.impl, "ok") // (not admissible on purpose: no 'admissible' query)
		time.Sleep(3 * time.Millisecond)
		iI, err := e.str.Create(1, 90, 1, raft.Configuration{}, 1, nil)
		if err != nil {
			t.Fatal(err)
		}
		inst := iI.(*Sink)
		inst.fatalFn = nil
		e.names[inst.ID()] = 9
		e.ops, e.impl = append(e.ops, "create 2 9 90 1"), append(e.impl, "ok")
		str, err := NewSnapshotStreamer(art.dbPath(7))
		if err != nil {
			t.Fatal(err)
		}
		if err := str.Open(); err != nil {
			t.Fatal(err)
		}
		_, werr := io.Copy(inst, str)
		str.Close()
		res := "ok"
		if werr != nil {
			res = "err " + c09Err(werr.Error())
		}
		e.ops, e.impl = append(e.ops, "wfull 2 "+c09Range(1, 7)+" - ok"), append(e.impl, res)
		res = "ok"
		if cerr := inst.Close(); cerr != nil {
			res = "err " + c09Err(cerr.Error())
		}
		e.ops, e.impl = append(e.ops, "close 2"), append(e.impl, res)
		walDir := filepath.Join(t.TempDir(), "wal-staging")
		os.MkdirAll(walDir, 0o755)
		wp := filepath.Join(walDir, fmt.Sprintf("%024d-%06d.wal", 3, 1))
		wb, _ := os.ReadFile(art.segPath(3))
		os.WriteFile(wp, wb, 0o644)
		c09WriteCRC(wp)
		ps, err := NewSnapshotPathStreamer(walDir)
		if err != nil {
			t.Fatal(err)
		}
		_, werr = io.Copy(local, ps)
		res = "ok"
		if werr != nil {
			res = "err " + c09Err(werr.Error())
		}
		e.ops, e.impl = append(e.ops, "winc 1 3"), append(e.impl, res)
		res = "ok"
		if cerr := local.Close(); cerr != nil {
			res = "err " + c09Err(cerr.Error())
		}
		e.ops, e.impl = append(e.ops, "close 1"), append(e.impl, res)
		e.hist = []string{"create(index=50)", "create(index=90)", "write-full(ok)@90", "close@90", "write-incremental@50", "close@50"}
		e.cover[9], e.cover[5] = 7, -1 // both completed their Close; 5 is not expected to resolve
		e.observe()
		e.str.Close()
		rep.Case(strings.Join(e.ops, ";"), true)
		rep.Count("overlapping-sinks-witness")
		allOps = append(allOps, e.ops)
		allImpl = append(allImpl, e.impl)
	}
	// --- directed: the requirement raised TWICE around a full snapshot in flight. SetDueNext(Full);
	// a full sink is created (captures that requirement); SetDueNext(Full) again (a second load while
	// the snapshot is being persisted: a NEW requirement); the sink is closed. The requirement must
	// survive, and an incremental header must be refused afterwards.
	{
		e := &c09Env{t: t, art: art, dir: filepath.Join(t.TempDir(), "snaps"), names: map[string]int{}, cover: map[int]int{}, rep: rep}
		e.emit("reset", "ok")
		e.open()
		full := func(h, nat int, index uint64, dbT int) {
			sI, err := e.str.Create(1, index, 1, raft.Configuration{}, 1, nil)
			if err != nil {
				t.Fatal(err)
			}
			sink := sI.(*Sink)
			sink.fatalFn = nil
			e.names[sink.ID()] = nat
			e.emit(fmt.Sprintf("create %d %d %d 1", h, nat, index), "ok")
			str, err := NewSnapshotStreamer(art.dbPath(dbT))
			if err != nil {
				t.Fatal(err)
			}
			if err := str.Open(); err != nil {
				t.Fatal(err)
			}
			_, werr := io.Copy(sink, str)
			str.Close()
			res := "ok"
			if werr != nil {
				res = "err " + c09Err(werr.Error())
			}
			e.emit(fmt.Sprintf("wfull %d %s - ok", h, c09Range(1, dbT)), res)
			e.cover[nat] = dbT
			e.pendingSink = sink
		}
		closeSink := func(h int) {
			res := "ok"
			if cerr := e.pendingSink.Close(); cerr != nil {
				res = "err " + c09Err(cerr.Error())
			}
			e.emit(fmt.Sprintf("close %d", h), res)
		}
		full(1, 1, 10, 2)
		closeSink(1)
		e.observe()
		e.str.SetDueNext(Full)
		e.emit("setfull", "ok")
		full(2, 2, 20, 4)
		e.str.SetDueNext(Full)
		e.emit("setfull", "ok")
		closeSink(2)
		e.hist = []string{"full@10 installed", "SetDueNext(Full)", "create(index=20)", "write-full(ok)", "SetDueNext(Full) again", "close:ok"}
		if !fileExistsC09(e.str.fullNeededPath) {
			rep.Fail("requirement-raised-after-capture-cleared-by-full-close", fmt.Sprintf("history %v: FULL_NEEDED is gone", e.hist), map[string]interface{}{"history": e.hist})
		}
		e.observe()
		// an incremental must now be refused at its header
		sI, err := e.str.Create(1, 30, 1, raft.Configuration{}, 1, nil)
		if err != nil {
			t.Fatal(err)
		}
		sink := sI.(*Sink)
		sink.fatalFn = nil
		e.names[sink.ID()] = 3
		e.emit("create 3 3 30 1", "ok")
		walDir := filepath.Join(t.TempDir(), "wal-staging")
		os.MkdirAll(walDir, 0o755)
		wp := filepath.Join(walDir, fmt.Sprintf("%024d-%06d.wal", 5, 1))
		wb, _ := os.ReadFile(art.segPath(5))
		os.WriteFile(wp, wb, 0o644)
		c09WriteCRC(wp)
		ps, err := NewSnapshotPathStreamer(walDir)
		if err != nil {
			t.Fatal(err)
		}
		_, werr := io.Copy(sink, ps)
		res := "ok"
		if werr != nil {
			res = "err " + c09Err(werr.Error())
		}
		e.emit("winc 3 5", res)
		if werr == nil {
			rep.Fail("incremental-accepted-while-full-needed:raised-twice-around-full-in-flight", fmt.Sprintf("history %v then an incremental header: accepted", e.hist), map[string]interface{}{"history": e.hist})
		}
		cres := "ok"
		if cerr := sink.Close(); cerr != nil {
			cres = "err " + c09Err(cerr.Error())
		}
		e.emit("close 3", cres)
		e.observe()
		e.str.Close()
		rep.Case(strings.Join(e.ops, ";"), true)
		rep.Count("double-raise-directed")
		allOps = append(allOps, e.ops)
		allImpl = append(allImpl, e.impl)
	}
	rep.vfCompareSegments("snapcat", allOps, allImpl)
}

// c09Listing lists every file below dir with its size.
func c09Listing(dir string) string {
	var l []string
	filepath.Walk(dir, func(p string, fi os.FileInfo, err error) error {
		if err == nil && p != dir {
			rel, _ := filepath.Rel(dir, p)
			if fi.IsDir() {
				l = append(l, rel+"/")
			} else {
				l = append(l, fmt.Sprintf("%s:%d", rel, fi.Size()))
			}
		}
		return nil
	})
	sort.Strings(l)
	return strings.Join(l, " ")
}

// reapPlanOracle runs the REAL reapInternal on a copy of the store directory, with the plan path
// pointed at a non-empty directory: a plan, if one is written, stays in <path>.tmp and nothing is
// executed. A reap that changes the copy although no plan reached the disk violates "the plan is
// on disk before anything is touched" (C07.plan_written_before_mutation, on which C09's treatment of
// reap rests). Its consequence is then shown on the copy: a crash between the removals of such a
// reap (the first removed directory gone, the others still there; then the second one half
// removed), NewStore, ListAll and Open of every listed snapshot.
func (e *c09Env) reapPlanOracle() {
	base := filepath.Dir(e.dir)
	scratch, block := filepath.Join(base, "reapcopy"), filepath.Join(base, "planblock")
	fresh := func() *Store {
		os.RemoveAll(scratch)
		if err := copyDir(e.dir, scratch); err != nil {
			e.t.Fatalf("copy store: %v", err)
		}
		str, err := NewStore(scratch)
		if err != nil {
			e.t.Fatalf("NewStore on a copy of the store: %v (history %v)", err, e.hist)
		}
		str.fatalFn = nil
		str.reapDisabled.Set()
		return str
	}
	str := fresh()
	before := c09Listing(scratch)
	os.RemoveAll(block)
	os.Remove(block + ".tmp")
	os.MkdirAll(filepath.Join(block, "x"), 0o755)
	str.reapPlanPath = block
	str.reapInternal()
	str.Close()
	_, perr := os.Stat(block + ".tmp")
	os.Remove(block + ".tmp")
	after := c09Listing(scratch)
	if after == before || perr == nil {
		if after != before {
			e.t.Fatalf("harness: plan capture executed a plan (history %v)", e.hist)
		}
		return
	}
	e.rep.Fail("reap-mutates-without-plan", fmt.Sprintf("history %v then reap: snapshot directories removed although no REAP_PLAN was written: before [%s] after [%s]", e.hist, before, after),
		map[string]interface{}{"history": e.hist})
	// which directories did it remove (in the order RemoveAll is applied: oldest first)?
	gone := []string{}
	ents, _ := os.ReadDir(e.dir)
	for _, en := range ents {
		if en.IsDir() && !fileExistsC09(filepath.Join(scratch, en.Name())) {
			gone = append(gone, en.Name())
		}
	}
	sort.Slice(gone, func(i, j int) bool { return e.nat(gone[i]) < e.nat(gone[j]) })
	for cut := 0; cut < 2*len(gone); cut++ {
		k, partial := cut/2, cut%2 == 1 // the first k directories are gone; optionally the next one is half removed
		if k == 0 && !partial {
			continue
		}
		str = fresh()
		str.Close()
		what := ""
		for i, g := range gone {
			if i < k {
				os.RemoveAll(filepath.Join(scratch, g))
				what += " " + g + ":removed"
			} else if i == k && partial {
				os.Remove(metaPath(filepath.Join(scratch, g)))
				what += " " + g + ":meta.json-removed"
			}
		}
		problems := []string{}
		if s2, err := NewStore(scratch); err != nil {
			problems = append(problems, "NewStore: "+err.Error())
		} else {
			s2.fatalFn = nil
			s2.reapDisabled.Set()
			if metas, err := s2.ListAll(); err != nil {
				problems = append(problems, "ListAll: "+err.Error())
			} else {
				for _, m := range metas {
					if _, rc, err := s2.Open(m.ID); err != nil {
						problems = append(problems, "Open("+m.ID+"): "+err.Error())
					} else {
						rc.Close()
					}
				}
			}
			s2.Close()
		}
		if len(problems) > 0 {
			e.rep.Fail("catalog-broken-after-crash-in-unplanned-reap", fmt.Sprintf("history %v then reap crashing with [%s ] and no plan to resume, restart: %s", e.hist, what, strings.Join(problems, "; ")),
				map[string]interface{}{"history": e.hist, "crash": what})
		}
	}
}

func fileExistsC09(p string) bool { _, err := os.Stat(p); return err == nil }

// crashInClose performs the steps of Sink.Close up to and including `cut` with the real building blocks.
func (e *c09Env) crashInClose(s *Sink, walDir, cut string) {
	if walDir != "" {
		moved := filepath.Join(s.snapTmpDirPath, "wal-incoming")
		if err := os.Rename(walDir, moved); err != nil {
			e.t.Fatal(err)
		}
		if cut == "w" {
			return
		}
		if err := NewStagingDir(moved).MoveWALFilesTo(s.snapTmpDirPath); err != nil {
			e.t.Fatal(err)
		}
		os.Remove(moved)
	} else {
		if cut == "w" {
			return // no such step for a full payload: nothing done yet
		}
		if err := s.sinkW.Close(); err != nil {
			e.t.Fatalf("FullSink.Close: %v", err)
		}
	}
	if cut == "f" {
		// optionally a truncated meta.json
		f, _ := os.Create(metaPath(s.snapTmpDirPath))
		f.Close()
		return
	}
	if err := writeMeta(s.snapTmpDirPath, s.meta); err != nil {
		e.t.Fatal(err)
	}
	if cut == "m" {
		return
	}
	if err := os.Rename(s.snapTmpDirPath, s.snapDirPath); err != nil {
		e.t.Fatal(err)
	}
}

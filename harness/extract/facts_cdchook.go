package main

// CdcHook (C27): facts about db/cdc.go CDCStreamer.CommitHook.
//
//   commitHookReturns   the expression of every `return` statement of CommitHook - the hook is the
//                       SQLite commit hook: anything but `true` would turn a COMMIT into a ROLLBACK on
//                       this node only
//   commitHookSendsNonBlocking  the send to the output channel sits in a `select` with a `default` case
//                       (a full channel drops the group instead of blocking the apply loop)

import (
	"go/ast"
)

func init() {
	register("CdcHook", func(x *X) {
		var rets []string
		nonBlocking := false
		if fd := x.Func("db", "CDCStreamer", "CommitHook"); fd != nil {
			ast.Inspect(fd.Body, func(n ast.Node) bool {
				switch t := n.(type) {
				case *ast.FuncLit:
					return false
				case *ast.ReturnStmt:
					if len(t.Results) == 1 {
						rets = append(rets, x.Src(t.Results[0]))
					} else {
						rets = append(rets, "<"+x.Src(t)+">")
					}
				case *ast.SelectStmt:
					hasSend, hasDefault := false, false
					for _, c := range t.Body.List {
						cc := c.(*ast.CommClause)
						if cc.Comm == nil {
							hasDefault = true
						} else if _, ok := cc.Comm.(*ast.SendStmt); ok {
							hasSend = true
						}
					}
					if hasSend && hasDefault {
						nonBlocking = true
					}
				}
				return true
			})
		}
		x.Comment("db/cdc.go (*CDCStreamer).CommitHook: the expression of every return statement")
		x.DefStrings("commitHookReturns", rets)
		x.Comment("the send to the output channel is in a select with a default case")
		x.DefBool("commitHookSendsNonBlocking", nonBlocking)
	})
}

/-
Model of how rqlite routes SQL texts to SQLite connections (C17):

  db/db.go     QueryWithContext   → a connection of the read-only pool (mode=ro, query_only)
               ExecuteWithContext → the single read-write connection
               RequestWithContext → the read-write connection for EVERY statement; a statement
                                    SQLite reports read-only goes through queryStmtWithConn,
                                    the others through executeStmtWithConn - same connection
  store/store.go  Query   (any level)            → db.Query (strong: through the log first)
                  Request nRW == 0 ∧ level≠strong → db.QueryWithContext (local, read-only pool)
                          otherwise               → through the log → db.Request
  store/store.go  RORWCount: a text counts as read-only iff `sqlite3_stmt_readonly` of its
                  FIRST statement is true (`Prepare` compiles only the first statement of a text)

A text is a list of statements, each abstracted to
  r   SQLite reports it read-only and it changes nothing (SELECT, EXPLAIN, PRAGMA table_info, …)
  w n a write to the database, effect token n
  t   not read-only for SQLite but without effect on the database file (CREATE TEMP TABLE …)
  qoff  a PRAGMA that switches query_only off (SQLite applies it when the statement is PREPARED, and
        the setting stays on the pooled connection)
  wa n  `ATTACH DATABASE '<the node's own file>' AS x; INSERT INTO x.t …`: a write that mode=ro does
        not stop
go-sqlite3's `ExecContext` steps EVERY statement of a text, `QueryContext` only the last.

SQLite is a parameter with assumed laws (`structure SqliteConn`): a connection opened with
mode=ro and query_only refuses to step `w` and `t` and leaves the database unchanged; a read-only
statement changes nothing. `listConn` is the executable instance the driver runs. Exercised on
real SQLite by the C17 correspondence runs.
-/
import RqModel.Model.Util
namespace RqModel.Routing
open RqModel.Util

inductive Stmt where
  | r
  | w (n : Nat)
  | t
  | qoff        -- switches PRAGMA query_only OFF on the connection it is prepared on (any spelling)
  | wa (n : Nat) -- a write through an ATTACHed alias of the node's own database file: mode=ro does
                 -- not cover attached databases, only query_only stands in its way
deriving Repr, DecidableEq

abbrev Text := List Stmt
abbrev Db := List Nat     -- the effect tokens applied, in order

/-- `sqlite3_stmt_readonly` -/
def stmtReadOnly : Stmt → Bool
  | .r => true
  | .qoff => true
  | _ => false

/-- `DB.StmtReadOnly(text)`: only the first statement is compiled. `none` = empty text (skipped) -/
def classify : Text → Option Bool
  | [] => none
  | s :: _ => some (stmtReadOnly s)

/-- `QueryContext(text)` in go-sqlite3 prepares every statement of the text in turn but steps
only the LAST one (the rows of the earlier statements are closed unread); `ExecContext(text)`
steps every statement. -/
def lastStmt : Text → Option Stmt
  | [] => none
  | [s] => some s
  | _ :: rest => lastStmt rest

/-- One SQLite connection as a PARAMETER: `step queryOnly db s` = stepping statement `s` to
completion on a connection of the read-only pool (`queryOnly`, opened with mode=ro and
PRAGMA query_only) or on the read-write connection; it yields the database afterwards and
whether the statement failed. The fields after `step` are the assumed laws (exercised on real
SQLite by the C17 runs). -/
structure SqliteConn (σ : Type) where
  step : Bool → σ → Stmt → σ × Bool
  /-- a query_only / mode=ro connection refuses every statement that is not read-only, unchanged -/
  queryOnly_refuses : ∀ db s, stmtReadOnly s = false → step true db s = (db, true)
  /-- a read-only statement changes nothing and succeeds, on either kind of connection -/
  readOnly_keeps : ∀ q db s, stmtReadOnly s = true → step q db s = (db, false)

/-- `QueryContext(text)`: only the last statement is stepped -/
def queryCtx {σ : Type} (C : SqliteConn σ) (q : Bool) (db : σ) (t : Text) : σ × Bool :=
  match lastStmt t with
  | some s => C.step q db s
  | none => (db, false)

/-- `db.Query` / `QueryWithContext` (no transaction): every non-empty text through `QueryContext`
on a connection of the read-only pool -/
def dbQueryG {σ : Type} (C : SqliteConn σ) : σ → List Text → σ × List Bool
  | db, [] => (db, [])
  | db, t :: rest =>
    if t = [] then dbQueryG C db rest
    else
      let r := queryCtx C true db t
      let rs := dbQueryG C r.1 rest
      (rs.1, r.2 :: rs.2)

/-- the executable connection used by the driver: the database is the list of effect tokens -/
def listConn : SqliteConn Db where
  step q db s :=
    match s with
    | .r => (db, false)
    | .qoff => (db, false)
    | .w n => if q then (db, true) else (db ++ [n], false)
    | .wa n => if q then (db, true) else (db ++ [n], false)
    | .t => if q then (db, true) else (db, false)
  queryOnly_refuses := by intro db s h; cases s <;> simp_all [stmtReadOnly]
  readOnly_keeps := by intro q db s h; cases s <;> simp_all [stmtReadOnly]

/-- `QueryContext` on the read-write connection -/
def runRWq (db : Db) (t : Text) : Db := (queryCtx listConn false db t).1

/-- `ExecContext` on the read-write connection: every statement is executed -/
def runRWexec (db : Db) : Text → Db
  | [] => db
  | s :: rest => runRWexec (listConn.step false db s).1 rest

structure Out where
  db : Db
  errs : List Bool      -- per non-empty text: did it report an error
deriving Repr, DecidableEq

/-- `db.Query` -/
def dbQuery (db : Db) (texts : List Text) : Out :=
  let r := dbQueryG listConn db texts
  ⟨r.1, r.2⟩

/-- one text in `RequestWithContext`: `queryStmtWithConn` when SQLite classifies it read-only,
`executeStmtWithConn` otherwise - both on the read-write connection -/
def requestText (db : Db) (t : Text) : Db :=
  match classify t with
  | none => db
  | some true => runRWq db t
  | some false => runRWexec db t

/-- `db.Request` / `RequestWithContext` (no transaction) -/
def dbRequest (db : Db) (texts : List Text) : Out :=
  ⟨texts.foldl requestText db, (texts.filter (· ≠ [])).map fun _ => false⟩

/-- `db.Execute` / `executeWithConn` (no transaction): every text through `ExecContext` -/
def dbExecute (db : Db) (texts : List Text) : Out :=
  ⟨texts.foldl runRWexec db, (texts.filter (· ≠ [])).map fun _ => false⟩

/-! ### the read-only pool's connection keeps its settings between requests -/

/-- a node as the query path sees it: the database and whether the pooled read-only connection still
has query_only switched on -/
structure NodeSt where
  db : Db := []
  roQO : Bool := true
deriving Repr, DecidableEq

/-- one text through `QueryContext` on the pooled read-only connection. Every statement of the text is
PREPARED (a `qoff` among them switches query_only off, for good); the last one is stepped: with
query_only off, mode=ro still protects the main database (`w`) but not an attached one (`wa`). -/
def queryTextRO (st : NodeSt) (t : Text) : NodeSt × Bool :=
  let qo := if t.contains .qoff then false else st.roQO
  match lastStmt t with
  | some (.wa n) => if qo then ({ st with roQO := qo }, true) else ({ db := st.db ++ [n], roQO := qo }, false)
  | some s => let r := listConn.step true st.db s; ({ db := r.1, roQO := qo }, r.2)
  | none => ({ st with roQO := qo }, false)

def queryTextsRO : NodeSt → List Text → NodeSt × List Bool
  | st, [] => (st, [])
  | st, t :: rest =>
    if t = [] then queryTextsRO st rest
    else
      let r := queryTextRO st t
      let rs := queryTextsRO r.1 rest
      (rs.1, r.2 :: rs.2)

/-- `Store.Query` / the local path of `Store.Request` with the pragma guard in front
(`PragmaCheckRequest.Check` → `db.IsBreakingPragma` per statement text): a request with a guarded
text is rejected as a whole (`none`) -/
def storeQueryGuarded (guard : Text → Bool) (st : NodeSt) (texts : List Text) : NodeSt × Option (List Bool) :=
  if texts.any guard then (st, none)
  else let r := queryTextsRO st texts; (r.1, some r.2)

inductive Level where
  | none | weak | linearizable | strong
deriving Repr, DecidableEq

/-- `Store.Query`: local or through the log, always `db.Query` -/
def storeQuery (_ : Level) (db : Db) (texts : List Text) : Out := dbQuery db texts

/-- `RORWCount`: number of texts not counted read-only -/
def nRW (texts : List Text) : Nat :=
  (texts.filter fun t => classify t == some false).length

/-- `Store.Request` -/
def storeRequest (level : Level) (db : Db) (texts : List Text) : Out :=
  if nRW texts == 0 && level != .strong then dbQuery db texts
  else dbRequest db texts

/-! ### line protocol
`reset` → `ok`
`dbquery|dbrequest|dbexecute <texts>` and `query|request <none|weak|linearizable|strong> <texts>` →
`<db tokens .-separated|-> <errs 0/1 string|->`; state (the database) persists between ops.
`gquery <level> <texts>` is the query path behind the pragma guard; a refused request prints `… rejected`.
texts: `|`-separated texts, each a `,`-separated list of `r`, `w<n>`, `t`, `p` (query_only off), `a<n>`
(write through an attached alias); `-` = no texts, `e` = empty text. -/

structure DState where
  db : Db := []
  roQO : Bool := true

def parseStmt (s : String) : Option Stmt :=
  match s.toList with
  | ['r'] => some .r
  | ['t'] => some .t
  | ['p'] => some .qoff
  | 'a' :: ds => (String.ofList ds).toNat?.map .wa
  | 'w' :: ds => (String.ofList ds).toNat?.map .w
  | _ => none

def parseText (s : String) : Option Text :=
  if s == "e" then some [] else (s.splitOn ",").mapM parseStmt

def parseTexts (s : String) : Option (List Text) :=
  if s == "-" then some [] else (s.splitOn "|").mapM parseText

def parseLevel (s : String) : Option Level :=
  if s == "none" then some .none else if s == "weak" then some .weak
  else if s == "linearizable" then some .linearizable else if s == "strong" then some .strong else none

def outStr (o : Out) : String :=
  (if o.db.isEmpty then "-" else ".".intercalate (o.db.map toString)) ++ " " ++
  (if o.errs.isEmpty then "-" else String.ofList (o.errs.map fun b => if b then '1' else '0'))

def step (d : DState) (line : String) : DState × String :=
  match words line with
  | ["reset"] => ({}, "ok")
  | [op, ts] =>
    match parseTexts ts with
    | some texts =>
      if op == "dbquery" then let o := dbQuery d.db texts; ({ d with db := o.db }, outStr o)
      else if op == "dbrequest" then let o := dbRequest d.db texts; ({ d with db := o.db }, outStr o)
      else if op == "dbexecute" then let o := dbExecute d.db texts; ({ d with db := o.db }, outStr o)
      else (d, "bad-op")
    | none => (d, "bad-op")
  | [op, lv, ts] =>
    match parseLevel lv, parseTexts ts with
    | some lv, some texts =>
      if op == "query" then let o := storeQuery lv d.db texts; ({ d with db := o.db }, outStr o)
      else if op == "request" then let o := storeRequest lv d.db texts; ({ d with db := o.db }, outStr o)
      else if op == "gquery" then
        -- the guarded query path (the guard of C15: any text holding a query_only switch is refused)
        let r := storeQueryGuarded (fun t => t.contains .qoff) ⟨d.db, d.roQO⟩ texts
        ({ db := r.1.db, roQO := r.1.roQO },
          match r.2 with
          | none => outStr ⟨r.1.db, []⟩ ++ " rejected"
          | some errs => outStr ⟨r.1.db, errs⟩)
      else (d, "bad-op")
    | _, _ => (d, "bad-op")
  | _ => (d, "bad-op")

def init : DState := {}

end RqModel.Routing
--! driver: routing RqModel.Routing
